#!/bin/bash
# MANIFEST.setup_cmd: build the orchestrator and warm the build of the instrumented system, offline.
set -e
export GOFLAGS=-mod=mod GOPROXY=off GOSUMDB=off GOTOOLCHAIN=local
GO=/opt/veriftools/go1.26.8/bin/go
cd /verif
mkdir -p build/bin evidence replays
(cd tools && $GO build -o /verif/build/bin/check ./check && $GO build -o /verif/build/bin/simgen ./simgen)
/verif/build/bin/check build >/dev/null
echo "setup ok"
