// check is the orchestrator: it rebuilds the instrumented system from /repo's
// current working tree, fans seeded runs out to worker processes, classifies
// and minimises violations, writes the evidence file and prints the verdict.
//
//	check <id> [--tier quick|thorough]
//	check replay <file>
//	check selftest determinism
//
// Exit 0: the property held on everything explored (KNOWN-FINDING lines may be
// printed); 1: a VIOLATION line was printed; 2: infrastructure trouble.
package main

import (
	"bufio"
	"crypto/sha256"
	"encoding/json"
	"fmt"
	"io"
	"os"
	"os/exec"
	"path/filepath"
	"sort"
	"strconv"
	"strings"
	"sync"
	"syscall"
	"time"
)

const (
	verifDir = "/verif"
	repoDir  = "/repo"
	goBin    = "/opt/veriftools/go1.26.8/bin"
)

type violation struct {
	Prop   string `json:"property"`
	Oracle string `json:"oracle"`
	Sig    string `json:"signature"`
	Msg    string `json:"message"`
	Step   uint64 `json:"step"`
	SimNS  int64  `json:"sim_ns"`
}

type runResult struct {
	Starting   *uint64           `json:"starting,omitempty"`
	Seed       uint64            `json:"seed"`
	K          uint64            `json:"k"`
	Profile    string            `json:"profile"`
	Steps      uint64            `json:"steps"`
	SimNS      int64             `json:"sim_ns"`
	WallMS     int64             `json:"wall_ms"`
	Hash       string            `json:"hash"`
	Config     json.RawMessage   `json:"config"`
	Faults     map[string]int    `json:"faults"`
	Reach      map[string]int    `json:"reach"`
	Counters   map[string]uint64 `json:"counters"`
	Violation  *violation        `json:"violation,omitempty"`
	Infra      string            `json:"infra,omitempty"`
	ReplayAt   string            `json:"replay,omitempty"`
	Phase      string            `json:"phase"`
	Nontrivial map[string]bool   `json:"nontrivial"`
	Digests    int               `json:"digests"`
	Sample     json.RawMessage   `json:"sample,omitempty"`
	Incidental []*violation      `json:"incidental,omitempty"`
}

type job struct {
	Profile   string `json:"profile"`
	BaseSeed  uint64 `json:"base_seed"`
	From      uint64 `json:"from"`
	Count     uint64 `json:"count"`
	Out       string `json:"out"`
	ReplayDir string `json:"replay_dir"`
	Replay    string `json:"replay,omitempty"`
	Trace     string `json:"trace,omitempty"`
	MaxWallS  int    `json:"max_wall_s"`
	Scale     int    `json:"scale"`
	Engine    string `json:"-"`
	Prop      string `json:"prop"`
}

type profShare struct {
	Name  string
	Share int
}

type propSpec struct {
	ID       string
	Engine   string // raft | log
	Profiles []profShare
	Rule     string
	Level    string
	Race     bool
}

var props = map[string]propSpec{
	"C01": {ID: "C01", Engine: "raft", Profiles: []profShare{{"elect", 6}, {"transfer", 2}, {"member", 2}},
		Rule: "a run counts when >=3 elections started and (some term had >=2 candidates or a leader was replaced); distinct by schedule hash"},
	"C02": {ID: "C02", Engine: "raft", Profiles: []profShare{{"repl", 3}, {"elect", 2}, {"snap", 2}, {"member", 1}, {"crash", 1}, {"diskerr", 1}},
		Rule: "a run counts when a leader change happened after >=1 commit and (some node truncated a conflicting suffix or a leader was elected while some node held uncommitted entries); distinct by schedule hash"},
	"C03": {ID: "C03", Engine: "raft", Profiles: []profShare{{"repl", 4}, {"snap", 3}, {"crash", 3}},
		Rule: "a run counts when >=20 updates were applied on >=2 nodes and >=1 leader change, restore or restart happened; distinct by schedule hash"},
	"C04": {ID: "C04", Engine: "raft", Profiles: []profShare{{"repl", 3}, {"elect", 3}, {"crash", 2}, {"snap", 2}},
		Rule: "a run counts when >=1 conflict truncation happened or >=1 append request from a lower term was delivered; distinct by schedule hash"},
	"C05": {ID: "C05", Engine: "raft", Profiles: []profShare{{"elect", 6}, {"crash", 3}, {"diskerr", 1}},
		Rule: "a run counts when a voter handled vote requests in a term with >=2 candidates, or handled a vote request after restarting in that term; distinct by schedule hash"},
	"C06": {ID: "C06", Engine: "raft", Profiles: []profShare{{"member", 6}, {"crash", 2}, {"repl", 2}},
		Rule: "a run counts when the durability oracle was evaluated at >=1 commit under a configuration whose voter count differs from the initial one, or while a non-voter held the entry; distinct by schedule hash"},
	"C07": {ID: "C07", Engine: "raft", Profiles: []profShare{{"repl", 5}, {"elect", 3}, {"transfer", 2}},
		Rule: "a run counts when it completed (history checked) with >=30 finished operations, >=1 ambiguous outcome and >=1 leader change; distinct by schedule hash"},
	"C08": {ID: "C08", Engine: "raft", Profiles: []profShare{{"member", 1}},
		Rule: "a run counts when >=2 configuration entries were compared with their predecessor and >=1 leader change or crash happened; distinct by schedule hash"},
	"C09": {ID: "C09", Engine: "raft", Profiles: []profShare{{"snap", 1}},
		Rule: "a run counts when >=1 snapshot was published, >=1 compaction removed a segment and >=1 snapshot was installed or restored from; distinct by schedule hash"},
	"C10": {ID: "C10", Engine: "raft", Profiles: []profShare{{"crash", 5}, {"snap", 3}, {"diskerr", 2}},
		Rule: "a run counts when >=1 crash landed at an I/O boundary of the victim and that node was restarted; distinct by schedule hash"},
	"C11": {ID: "C11", Engine: "raft", Profiles: []profShare{{"member", 7}, {"transfer", 3}},
		Rule: "a run counts when >=1 promotion, demotion or removal was carried out (configuration entry stored) and a timeout-now or election event reached a node; distinct by schedule hash"},
	"C12": {ID: "C12", Engine: "raft", Profiles: []profShare{{"snapmember", 1}},
		Rule: "a run counts when >=1 snapshot was published on a node after >=2 configuration entries were stored; distinct by schedule hash"},
	"C13": {ID: "C13", Engine: "log", Profiles: []profShare{{"logseq", 1}},
		Rule: "a run (one operation program against the sequence model) counts when the log spanned >=2 segments, >=1 front or back removal happened and a view was read by another goroutine while the writer appended; distinct by schedule hash"},
	"C14": {ID: "C14", Engine: "log", Level: "fault_enumeration", Profiles: []profShare{{"logcrash", 1}},
		Rule: "a run is one sampled operation program in which EVERY file-system/mmap call boundary of the writer is taken as a crash point (process-kill image re-opened with the real Open; for a third of the boundaries also 1-2 power-loss images); it counts when >=1 commit completed and >=10 crash points were checked; distinct by schedule hash"},
	"C15": {ID: "C15", Engine: "raft", Profiles: []profShare{{"mix", 1}}, Race: true,
		Rule: "a run counts when >=3 kinds of admin activity (snapshot, transfer, membership, restart) overlapped client load; distinct by schedule hash"},
	"C16": {ID: "C16", Engine: "raft", Profiles: []profShare{{"transfer", 1}},
		Rule: "a run counts when >=1 transfer request was accepted by a leader (not rejected by validation); distinct by schedule hash"},
	"C17": {ID: "C17", Engine: "raft", Profiles: []profShare{{"mix", 3}, {"crash", 2}, {"member", 2}, {"snap", 2}, {"elect", 1}},
		Rule: "a run counts when >=3 fault events happened before the heal and the cluster then had to settle (liveness evaluated) or the stability clause was evaluated; distinct by schedule hash"},
	"C20": {ID: "C20", Engine: "raft", Profiles: []profShare{{"identity", 1}},
		Rule: "a run counts when >=1 dial was delivered to a node other than the identity the dialer intended (mis-routing or an address the other cluster's configuration points at) and requests were identity-checked; distinct by schedule hash"},
	"C19": {ID: "C19", Engine: "raft", Profiles: []profShare{{"mix", 5}, {"snap", 5}},
		Rule: "a run counts when >=20 status reports were checked, a role change was seen between reports and >=1 snapshot install, truncation or configuration revert happened; distinct by schedule hash"},
}

func fatal2(format string, a ...interface{}) {
	fmt.Fprintf(os.Stderr, "check: "+format+"\n", a...)
	os.Exit(2)
}

func env() []string {
	e := os.Environ()
	e = append(e, "GOFLAGS=-mod=mod", "GOPROXY=off", "GOSUMDB=off", "GOTOOLCHAIN=local", "PATH="+goBin+":"+os.Getenv("PATH"))
	return e
}

// ---- build --------------------------------------------------------------------------------

func hashTree(h io.Writer, root string, exts map[string]bool, skip func(string) bool) {
	var files []string
	_ = filepath.Walk(root, func(p string, info os.FileInfo, err error) error {
		if err != nil {
			return nil
		}
		if info.IsDir() {
			if skip != nil && skip(p) {
				return filepath.SkipDir
			}
			return nil
		}
		if exts[filepath.Ext(p)] {
			files = append(files, p)
		}
		return nil
	})
	sort.Strings(files)
	for _, f := range files {
		b, err := os.ReadFile(f)
		if err != nil {
			continue
		}
		fmt.Fprintf(h, "%s %d\n", f, len(b))
		h.Write(b)
	}
}

func buildHash() string {
	h := sha256.New()
	exts := map[string]bool{".go": true, ".mod": true, ".sum": true}
	hashTree(h, repoDir, exts, func(p string) bool {
		b := filepath.Base(p)
		return b == ".git" || b == "cmd" || b == "example"
	})
	hashTree(h, filepath.Join(verifDir, "sim"), exts, nil)
	hashTree(h, filepath.Join(verifDir, "harness"), exts, nil)
	hashTree(h, filepath.Join(verifDir, "tools", "simgen"), exts, nil)
	return fmt.Sprintf("%x", h.Sum(nil))[:16]
}

func run(dir string, name string, args ...string) (string, error) {
	if name == "go" {
		name = filepath.Join(goBin, "go")
	}
	cmd := exec.Command(name, args...)
	cmd.Dir = dir
	cmd.Env = env()
	out, err := cmd.CombinedOutput()
	return string(out), err
}

// build returns the directory holding the instrumented binaries for the
// current trees, building them if needed (serialised by a lock file).
func build(race bool) string {
	bdir := filepath.Join(verifDir, "build")
	_ = os.MkdirAll(filepath.Join(bdir, "bin"), 0755)
	lock, err := os.OpenFile(filepath.Join(bdir, ".lock"), os.O_CREATE|os.O_RDWR, 0644)
	if err != nil {
		fatal2("lock: %v", err)
	}
	defer lock.Close()
	if err := syscall.Flock(int(lock.Fd()), syscall.LOCK_EX); err != nil {
		fatal2("flock: %v", err)
	}
	defer syscall.Flock(int(lock.Fd()), syscall.LOCK_UN)

	hash := buildHash()
	out := filepath.Join(bdir, hash)
	marker := filepath.Join(out, "ok")
	if race {
		marker = filepath.Join(out, "ok.race")
	}
	if _, err := os.Stat(marker); err == nil {
		_ = os.WriteFile(filepath.Join(out, "used"), []byte(time.Now().Format(time.RFC3339)), 0644)
		return out
	}
	// drop stale builds (disk is limited), but never one that another check started from
	// within the last hour may still be running from
	ents, _ := os.ReadDir(bdir)
	for _, e := range ents {
		if e.IsDir() && e.Name() != "bin" && e.Name() != hash && len(e.Name()) == 16 {
			if fi, err := os.Stat(filepath.Join(bdir, e.Name(), "used")); err == nil && time.Since(fi.ModTime()) < time.Hour {
				continue
			}
			_ = os.RemoveAll(filepath.Join(bdir, e.Name()))
		}
	}
	_ = os.MkdirAll(out, 0755)
	simgen := filepath.Join(bdir, "bin", "simgen")
	if o, err := run(filepath.Join(verifDir, "tools"), "go", "build", "-o", simgen, "./simgen"); err != nil {
		fatal2("building simgen failed: %v\n%s", err, o)
	}
	if _, err := os.Stat(filepath.Join(out, "overlay.json")); err != nil {
		if o, err := run(verifDir, simgen, "-repo", repoDir, "-harness", filepath.Join(verifDir, "harness"), "-sim", filepath.Join(verifDir, "sim"), "-out", out); err != nil {
			fatal2("simgen failed: %v\n%s", err, o)
		}
	}
	type target struct{ pkg, bin string }
	targets := []target{{".", "raft.test"}, {"./log", "log.test"}}
	for _, t := range targets {
		args := []string{"test", "-c", "-tags", "verif", "-vet=off", "-overlay", filepath.Join(out, "overlay.json"), "-modfile", filepath.Join(out, "sim.mod")}
		bin := t.bin
		if race {
			args = append(args, "-race")
			bin = strings.TrimSuffix(bin, ".test") + ".race.test"
		}
		args = append(args, "-o", filepath.Join(out, bin), t.pkg)
		if o, err := run(repoDir, "go", args...); err != nil {
			fatal2("building %s from the current tree failed: %v\n%s", t.pkg, err, o)
		}
	}
	_ = os.WriteFile(marker, []byte(time.Now().Format(time.RFC3339)), 0644)
	_ = os.WriteFile(filepath.Join(out, "used"), []byte(time.Now().Format(time.RFC3339)), 0644)
	return out
}

// ---- workers ---------------------------------------------------------------------------------

type batch struct {
	jb      job
	results []runResult
	crashed string // non-empty: worker died; attributed to the seed in progress
}

func runWorker(bdir string, jb job, race bool, timeout time.Duration) batch {
	b := batch{jb: jb}
	tmp, err := os.MkdirTemp("/dev/shm", "verif-job-")
	if err != nil {
		b.crashed = err.Error()
		return b
	}
	defer os.RemoveAll(tmp)
	jb.Out = filepath.Join(tmp, "out.jsonl")
	jf := filepath.Join(tmp, "job.json")
	jbytes, _ := json.Marshal(jb)
	_ = os.WriteFile(jf, jbytes, 0644)
	bin := jb.Engine + ".test"
	if race {
		bin = jb.Engine + ".race.test"
	}
	cmd := exec.Command("/bin/bash", "-c", fmt.Sprintf("ulimit -v %d; exec %s -test.run '^TestSimWorker$' -test.timeout 0", vlimitKB(race), filepath.Join(bdir, bin)))
	cmd.Env = append(env(), "VERIF_JOB="+jf, "GOMAXPROCS=2", "GORACE=halt_on_error=1", "GOMEMLIMIT=3GiB")
	var stderr strings.Builder
	cmd.Stderr = &stderr
	cmd.Stdout = &stderr
	if err := cmd.Start(); err != nil {
		b.crashed = err.Error()
		return b
	}
	done := make(chan error, 1)
	go func() { done <- cmd.Wait() }()
	var werr error
	select {
	case werr = <-done:
	case <-time.After(timeout):
		_ = cmd.Process.Kill()
		<-done
		werr = fmt.Errorf("watchdog: worker exceeded %v", timeout)
	}
	// read results
	var inProgress *uint64
	if f, err := os.Open(jb.Out); err == nil {
		sc := bufio.NewScanner(f)
		sc.Buffer(make([]byte, 1<<20), 64<<20)
		for sc.Scan() {
			var r runResult
			if err := json.Unmarshal(sc.Bytes(), &r); err != nil {
				continue
			}
			if r.Starting != nil {
				inProgress = r.Starting
				continue
			}
			inProgress = nil
			b.results = append(b.results, r)
		}
		f.Close()
	}
	if werr != nil {
		seed := "?"
		if inProgress != nil {
			seed = strconv.FormatUint(*inProgress, 10)
		}
		tail := stderr.String()
		if len(tail) > 6000 {
			tail = tail[len(tail)-6000:]
		}
		b.crashed = fmt.Sprintf("worker died (%v) while running seed %s\n%s", werr, seed, tail)
	}
	return b
}

func vlimitKB(race bool) int {
	if race {
		return 1 << 40 // the race detector reserves a huge shadow range; GOMEMLIMIT and the watchdog bound it instead
	}
	return 8 << 20 // 8 GiB of address space
}

// ---- race probe (C15) -----------------------------------------------------------------------------

// runRacePhase runs the free-running race build (DESIGN 12.13) and turns every
// distinct race report into a violation record with signature race:<fn>|<fn>.
func runRacePhase(spec propSpec, seed uint64, ts tierSpec, a *agg, replayDir string) {
	bdir := build(true)
	wall := ts.Wall / 3
	if wall < 20*time.Second {
		wall = 20 * time.Second
	}
	deadline := time.Now().Add(wall)
	var wg sync.WaitGroup
	var mu sync.Mutex
	next := uint64(0)
	seen := map[string]bool{}
	for w := 0; w < ts.Workers; w++ {
		wg.Add(1)
		go func(w int) {
			defer wg.Done()
			for time.Now().Before(deadline) {
				mu.Lock()
				from := next
				next += 4
				mu.Unlock()
				tmp, err := os.MkdirTemp("/dev/shm", "verif-race-job-")
				if err != nil {
					return
				}
				jb := job{Profile: "racefree", BaseSeed: seed, From: from, Count: 4, Out: filepath.Join(tmp, "out.jsonl"), MaxWallS: int(time.Until(deadline).Seconds()) + 1}
				jbytes, _ := json.Marshal(jb)
				jf := filepath.Join(tmp, "job.json")
				_ = os.WriteFile(jf, jbytes, 0644)
				logp := filepath.Join(tmp, "race.log")
				cmd := exec.Command(filepath.Join(bdir, "raft.race.test"), "-test.run", "^TestRaceWorker$", "-test.timeout", "0")
				cmd.Env = append(env(), "VERIF_JOB="+jf, "GOMAXPROCS=4", "GORACE=halt_on_error=0 exitcode=66 log_path="+logp, "GOMEMLIMIT=3GiB")
				outb, werr := cmd.CombinedOutput()
				// results
				var results []runResult
				var inProgress *uint64
				if f, err := os.Open(jb.Out); err == nil {
					sc := bufio.NewScanner(f)
					sc.Buffer(make([]byte, 1<<20), 16<<20)
					for sc.Scan() {
						var r runResult
						if json.Unmarshal(sc.Bytes(), &r) != nil {
							continue
						}
						if r.Starting != nil {
							inProgress = r.Starting
							continue
						}
						inProgress = nil
						r.Nontrivial = map[string]bool{"C15": r.Faults["updates"] > 0 && (r.Faults["snapshot"]+r.Faults["member"]+r.Faults["transfer"]+r.Faults["restart"]) >= 3}
						results = append(results, r)
					}
					f.Close()
				}
				reports := parseRaceLogs(tmp)
				mu.Lock()
				a.mu.Lock()
				for i := range results {
					results[i].Profile = "racefree"
				}
				a.results = append(a.results, results...)
				for _, rep := range reports {
					if seen[rep.sig] {
						continue
					}
					seen[rep.sig] = true
					rp := filepath.Join(replayDir, fmt.Sprintf("C15-race-%x.json", hash64(rep.sig)))
					rb, _ := json.Marshal(map[string]interface{}{"property": "C15", "oracle": "data_race", "signature": rep.sig, "engine": "race", "seed": jb.BaseSeed, "from": from, "message": rep.text})
					_ = os.WriteFile(rp, rb, 0644)
					a.violations = append(a.violations, runResult{Seed: jb.BaseSeed*1000003 + from, Profile: "racefree", ReplayAt: rp, Steps: 1 << 60,
						Violation: &violation{Prop: "C15", Oracle: "data_race", Sig: rep.sig, Msg: rep.text}})
				}
				if werr != nil && len(reports) == 0 {
					// died without a race report: a fatal error (concurrent map access), a panic or a bubble deadlock
					text := string(outb)
					if len(text) > 4000 {
						text = text[len(text)-4000:]
					}
					sig := "fatal:" + fatalSig(string(outb))
					if !seen[sig] {
						seen[sig] = true
						s := uint64(0)
						if inProgress != nil {
							s = *inProgress
						}
						rp := filepath.Join(replayDir, fmt.Sprintf("C15-race-%x.json", hash64(sig)))
						rb, _ := json.Marshal(map[string]interface{}{"property": "C15", "oracle": "fatal_in_free_running_mode", "signature": sig, "engine": "race", "seed": jb.BaseSeed, "from": from, "message": text})
						_ = os.WriteFile(rp, rb, 0644)
						a.violations = append(a.violations, runResult{Seed: s, Profile: "racefree", ReplayAt: rp, Steps: 1 << 60,
							Violation: &violation{Prop: "C15", Oracle: "fatal_in_free_running_mode", Sig: sig, Msg: text}})
					}
				}
				a.mu.Unlock()
				mu.Unlock()
				_ = os.RemoveAll(tmp)
			}
		}(w)
	}
	wg.Wait()
}

func hash64(s string) uint64 {
	h := sha256.Sum256([]byte(s))
	var v uint64
	for i := 0; i < 8; i++ {
		v = v<<8 | uint64(h[i])
	}
	return v
}

type raceReport struct{ sig, text string }

// parseRaceLogs reads the race detector's log files of one worker.
func parseRaceLogs(dir string) []raceReport {
	var out []raceReport
	ents, _ := os.ReadDir(dir)
	for _, e := range ents {
		if !strings.HasPrefix(e.Name(), "race.log") {
			continue
		}
		b, err := os.ReadFile(filepath.Join(dir, e.Name()))
		if err != nil {
			continue
		}
		for _, block := range strings.Split(string(b), "==================") {
			if !strings.Contains(block, "WARNING: DATA RACE") {
				continue
			}
			var fns []string
			lines := strings.Split(block, "\n")
			for i, l := range lines {
				t := strings.TrimSpace(l)
				if strings.HasPrefix(t, "Read at") || strings.HasPrefix(t, "Write at") || strings.HasPrefix(t, "Previous read at") || strings.HasPrefix(t, "Previous write at") {
					// first frame of the code under test below this access
					fn := "?"
					for j := i + 1; j < len(lines); j++ {
						f := strings.TrimSpace(lines[j])
						if f == "" {
							break
						}
						if strings.Contains(f, "santhosh-tekuri/raft") && strings.HasSuffix(f, "()") && !strings.Contains(f, "zz_verif") {
							f = strings.TrimSuffix(f, "()")
							if k := strings.LastIndex(f, "/"); k >= 0 {
								f = f[k+1:]
							}
							fn = strings.ReplaceAll(f, "__sim", "")
							break
						}
					}
					fns = append(fns, fn)
				}
			}
			sort.Strings(fns)
			text := block
			if len(text) > 5000 {
				text = text[:5000]
			}
			out = append(out, raceReport{"race:" + strings.Join(fns, "|"), text})
		}
	}
	return out
}

func fatalSig(out string) string {
	for _, l := range strings.Split(out, "\n") {
		if strings.HasPrefix(l, "fatal error:") || strings.HasPrefix(l, "panic:") {
			if len(l) > 120 {
				l = l[:120]
			}
			return l
		}
	}
	return "worker died"
}

// ---- known findings ---------------------------------------------------------------------------

type finding struct {
	Property  string `json:"property"`
	Status    string `json:"status"` // open | fixed
	Signature string `json:"signature"`
	Commit    string `json:"commit,omitempty"`
	Summary   string `json:"summary"`
}

func loadFindings() []finding {
	b, err := os.ReadFile(filepath.Join(verifDir, "known_findings.json"))
	if err != nil {
		return nil
	}
	var fs []finding
	if err := json.Unmarshal(b, &fs); err != nil {
		fatal2("known_findings.json: %v", err)
	}
	return fs
}

// sigMatch: exact, or a glob in which '*' matches any run of characters.
func sigMatch(listed, got string) bool {
	if !strings.Contains(listed, "*") {
		return listed == got
	}
	parts := strings.Split(listed, "*")
	if !strings.HasPrefix(got, parts[0]) {
		return false
	}
	got = got[len(parts[0]):]
	for i := 1; i < len(parts); i++ {
		p := parts[i]
		if i == len(parts)-1 {
			return strings.HasSuffix(got, p)
		}
		k := strings.Index(got, p)
		if k < 0 {
			return false
		}
		got = got[k+len(p):]
	}
	return true
}

func matchOpen(fs []finding, v *violation) *finding {
	for i := range fs {
		f := &fs[i]
		if f.Status == "open" && f.Property == v.Prop && sigMatch(f.Signature, v.Sig) {
			return f
		}
	}
	return nil
}

// ---- main flows ---------------------------------------------------------------------------------

func seedFromEnv() uint64 {
	if s := os.Getenv("VERIF_SEED"); s != "" {
		if v, err := strconv.ParseUint(s, 10, 64); err == nil {
			return v
		}
		if v, err := strconv.ParseInt(s, 10, 64); err == nil {
			return uint64(v)
		}
	}
	return 20260925
}

type tierSpec struct {
	Wall    time.Duration // target wall time of the exploration phase
	Workers int
	PerJob  uint64 // seeds per worker process
	Scale   int
	Shrink  time.Duration
}

func tierOf(name string) tierSpec {
	ts := tierSpec{Wall: 75 * time.Second, Workers: 16, PerJob: 12, Scale: 1, Shrink: 90 * time.Second}
	if name == "thorough" {
		ts = tierSpec{Wall: 12 * time.Minute, Workers: 16, PerJob: 40, Scale: 2, Shrink: 5 * time.Minute}
	}
	if s := os.Getenv("VERIF_WALL_S"); s != "" {
		if v, err := strconv.Atoi(s); err == nil {
			ts.Wall = time.Duration(v) * time.Second
		}
	}
	if s := os.Getenv("VERIF_WORKERS"); s != "" {
		if v, err := strconv.Atoi(s); err == nil && v > 0 {
			ts.Workers = v
		}
	}
	return ts
}

func main() {
	if len(os.Args) < 2 {
		fatal2("usage: check <id> [--tier quick|thorough] | check replay <file> | check selftest determinism")
	}
	switch os.Args[1] {
	case "replay":
		if len(os.Args) < 3 {
			fatal2("usage: check replay <file>")
		}
		os.Exit(cmdReplay(os.Args[2]))
	case "selftest":
		if len(os.Args) < 3 {
			fatal2("usage: check selftest determinism")
		}
		os.Exit(cmdSelftest(os.Args[2:]))
	case "build":
		fmt.Println(build(len(os.Args) > 2 && os.Args[2] == "race"))
		return
	}
	id := os.Args[1]
	tier := os.Getenv("VERIF_TIER")
	for i := 2; i < len(os.Args); i++ {
		if os.Args[i] == "--tier" && i+1 < len(os.Args) {
			tier = os.Args[i+1]
			i++
		}
	}
	if tier == "" {
		tier = "quick"
	}
	spec, ok := props[id]
	if !ok {
		fatal2("unknown property %q", id)
	}
	os.Exit(cmdCheck(spec, tier))
}

type agg struct {
	mu         sync.Mutex
	results    []runResult
	crashes    []string
	infra      []string
	violations []runResult
}

func cmdCheck(spec propSpec, tier string) int {
	start := time.Now()
	ts := tierOf(tier)
	seed := seedFromEnv()
	bdir := build(false)
	if spec.Race {
		build(true)
	}
	replayDir := filepath.Join(verifDir, "replays")
	_ = os.MkdirAll(replayDir, 0755)

	// job queue: profiles interleaved by share, consecutive seed ranges
	totalShare := 0
	for _, p := range spec.Profiles {
		totalShare += p.Share
	}
	var a agg
	deadline := start.Add(ts.Wall)
	var wg sync.WaitGroup
	var qmu sync.Mutex
	next := uint64(0)
	jobNo := 0
	nextJob := func() (job, bool) {
		qmu.Lock()
		defer qmu.Unlock()
		if time.Now().After(deadline) {
			return job{}, false
		}
		// pick profile by share, round robin over job numbers
		slot := jobNo % totalShare
		jobNo++
		prof := spec.Profiles[0].Name
		for _, p := range spec.Profiles {
			if slot < p.Share {
				prof = p.Name
				break
			}
			slot -= p.Share
		}
		jb := job{Profile: prof, BaseSeed: seed, From: next, Count: ts.PerJob, ReplayDir: replayDir, Scale: ts.Scale, Engine: spec.Engine, Prop: spec.ID,
			MaxWallS: int(time.Until(deadline).Seconds()) + 1}
		next += ts.PerJob
		return jb, true
	}
	stop := false
	for w := 0; w < ts.Workers; w++ {
		wg.Add(1)
		go func() {
			defer wg.Done()
			for {
				qmu.Lock()
				s := stop
				qmu.Unlock()
				if s {
					return
				}
				jb, ok := nextJob()
				if !ok {
					return
				}
				b := runWorker(bdir, jb, false, ts.Wall+3*time.Minute)
				// a worker stops after a run that left goroutines behind: continue its range
				for b.crashed == "" && len(b.results) > 0 && uint64(len(b.results)) < jb.Count && time.Now().Before(deadline) {
					last := b.results[len(b.results)-1]
					if last.Violation == nil || last.Infra != "" {
						break
					}
					rest := jb
					rest.From = last.K + 1
					rest.Count = jb.From + jb.Count - rest.From
					if rest.Count == 0 {
						break
					}
					b2 := runWorker(bdir, rest, false, ts.Wall+3*time.Minute)
					if len(b2.results) == 0 {
						b.crashed = b2.crashed
						break
					}
					b.results = append(b.results, b2.results...)
					b.crashed = b2.crashed
					jb.Count = jb.Count // unchanged; loop ends when all seeds are covered
					if uint64(len(b.results)) >= jb.Count {
						break
					}
				}
				a.mu.Lock()
				a.results = append(a.results, b.results...)
				if b.crashed != "" {
					a.crashes = append(a.crashes, b.crashed)
				}
				for _, r := range b.results {
					if r.Infra != "" {
						a.infra = append(a.infra, fmt.Sprintf("seed %d: %s", r.Seed, r.Infra))
					}
					if r.Violation != nil {
						a.violations = append(a.violations, r)
					}
				}
				a.mu.Unlock()
			}
		}()
	}
	wg.Wait()
	if spec.Race {
		runRacePhase(spec, seed, ts, &a, replayDir)
	}

	if len(a.infra) > 0 {
		fmt.Fprintf(os.Stderr, "check: simulator trouble (exit 2), first of %d:\n%s\n", len(a.infra), a.infra[0])
		writeEvidence(spec, tier, seed, &a, nil, nil, start, 0)
		return 2
	}
	// a worker that died of a fatal error / signal is a self-inflicted failure of the system
	// under test only if the output shows an application fault; otherwise infrastructure
	for _, c := range a.crashes {
		fmt.Fprintf(os.Stderr, "check: %s\n", c)
	}
	if len(a.crashes) > 0 {
		writeEvidence(spec, tier, seed, &a, nil, nil, start, 0)
		return 2
	}

	findings := loadFindings()
	var own []runResult
	known := map[string]int{}
	incidental := map[string]int{}
	for _, r := range a.violations {
		v := r.Violation
		if f := matchOpen(findings, v); f != nil {
			if f.Property == spec.ID {
				known[f.Property+" "+f.Signature+": "+firstSentence(f.Summary)]++
			} else {
				incidental["known:"+f.Property+":"+f.Signature]++
			}
			if r.ReplayAt != "" {
				_ = os.Remove(r.ReplayAt)
			}
			continue
		}
		if v.Prop == spec.ID {
			own = append(own, r)
		} else {
			incidental[v.Prop+":"+v.Sig]++
			// keep at most two replay files per foreign signature
			if r.ReplayAt != "" {
				if incidental[v.Prop+":"+v.Sig] <= 2 {
					idir := filepath.Join(replayDir, "incidental")
					_ = os.MkdirAll(idir, 0755)
					_ = os.Rename(r.ReplayAt, filepath.Join(idir, filepath.Base(r.ReplayAt)))
				} else {
					_ = os.Remove(r.ReplayAt)
				}
			}
		}
	}
	for _, r := range a.results {
		for _, v := range r.Incidental {
			if f := matchOpen(findings, v); f != nil {
				incidental["known:"+f.Property+":"+f.Signature]++
			} else {
				incidental[v.Prop+":"+v.Sig]++
				// the run went on past it, so there is no recorded tape: keep the seed, from which
				// the run is regenerated with the other property as target
				if incidental[v.Prop+":"+v.Sig] <= 2 && spec.Engine == "raft" {
					idir := filepath.Join(replayDir, "incidental")
					_ = os.MkdirAll(idir, 0755)
					rb, _ := json.Marshal(replayFile{Property: v.Prop, Oracle: v.Oracle, Signature: v.Sig, Message: v.Msg, Step: v.Step,
						Seed: r.Seed, Profile: r.Profile, Scale: ts.Scale, Target: v.Prop, SeedOnly: true})
					_ = os.WriteFile(filepath.Join(idir, fmt.Sprintf("%s-%d.json", v.Prop, r.Seed)), rb, 0644)
				}
			}
		}
	}
	exit := 0
	var reported []string
	if len(own) > 0 {
		// report each distinct signature once, minimised
		seen := map[string]bool{}
		sort.Slice(own, func(i, j int) bool { return own[i].Steps < own[j].Steps })
		for _, r := range own {
			if seen[r.Violation.Sig] {
				continue
			}
			seen[r.Violation.Sig] = true
			path := r.ReplayAt
			if path != "" {
				if shrunk := shrink(bdir, path, ts.Shrink); shrunk != "" {
					path = shrunk
				}
			}
			fmt.Printf("VIOLATION property=%s replay=%s\n", spec.ID, path)
			fmt.Printf("  oracle=%s signature=%q seed=%d profile=%s\n  %s\n", r.Violation.Oracle, r.Violation.Sig, r.Seed, r.Profile, firstLines(r.Violation.Msg, 12))
			reported = append(reported, path)
			exit = 1
		}
	}
	// keep only the replay files that were reported (own) or sampled (incidental)
	keep := map[string]bool{}
	for _, p := range reported {
		keep[p] = true
		keep[strings.TrimSuffix(p, ".min.json")+".json"] = true
	}
	for _, r := range own {
		if r.ReplayAt != "" && !keep[r.ReplayAt] {
			_ = os.Remove(r.ReplayAt)
		}
	}
	var knownLines []string
	for k, n := range known {
		knownLines = append(knownLines, fmt.Sprintf("%s (hit %d times)", k, n))
	}
	sort.Strings(knownLines)
	for _, k := range knownLines {
		parts := strings.SplitN(k, " ", 2)
		fmt.Printf("KNOWN-FINDING: property=%s %s\n", parts[0], parts[1])
	}
	writeEvidence(spec, tier, seed, &a, incidental, knownLines, start, len(own))
	n := len(a.results)
	fmt.Printf("check %s (%s): %d runs, %d violations of %s, %d incidental, %d known; %.0fs\n", spec.ID, tier, n, len(own), spec.ID, len(incidental), len(known), time.Since(start).Seconds())
	return exit
}

func firstSentence(s string) string {
	if i := strings.Index(s, ";"); i > 0 {
		s = s[:i]
	}
	if len(s) > 300 {
		s = s[:300]
	}
	return s
}

func firstLines(s string, n int) string {
	lines := strings.Split(s, "\n")
	if len(lines) > n {
		lines = lines[:n]
	}
	return strings.Join(lines, "\n  ")
}

// ---- evidence -----------------------------------------------------------------------------------

func writeEvidence(spec propSpec, tier string, seed uint64, a *agg, incidental map[string]int, known []string, start time.Time, unlisted int) {
	level := spec.Level
	if level == "" {
		level = "exploration"
	}
	distinct := map[string]bool{}
	nontrivial := map[string]bool{}
	faults := map[string]int{}
	reach := map[string]int{}
	var steps uint64
	var simNS int64
	digests := 0
	profiles := map[string]int{}
	var samples []json.RawMessage
	nviol := 0
	for _, r := range a.results {
		distinct[r.Hash] = true
		if r.Nontrivial[spec.ID] {
			nontrivial[r.Hash] = true
			if len(samples) < 4 && len(r.Sample) > 0 {
				samples = append(samples, r.Sample)
			}
		}
		for k, v := range r.Faults {
			faults[k] += v
		}
		for k, v := range r.Reach {
			reach[k] += v
		}
		steps += r.Steps
		simNS += r.SimNS
		digests += r.Digests
		profiles[r.Profile]++
		if r.Violation != nil && r.Violation.Prop == spec.ID {
			nviol++ // all, listed ones included
		}
	}
	if len(samples) == 0 {
		for _, r := range a.results {
			if len(r.Sample) > 0 {
				samples = append(samples, r.Sample)
				if len(samples) >= 2 {
					break
				}
			}
		}
	}
	wall := time.Since(start).Seconds()
	cov := map[string]interface{}{
		"evaluations":            len(a.results),
		"distinct_nontrivial":    len(nontrivial),
		"rule":                   spec.Rule,
		"samples":                samples,
		"distinct_schedules":     len(distinct),
		"runs_per_hour":          int(float64(len(a.results)) / wall * 3600),
		"sim_seconds_total":      float64(simNS) / 1e9,
		"steps_total":            steps,
		"faults_fired":           faults,
		"reach":                  reach,
		"distinct_state_digests": digests,
		"profiles":               profiles,
		"incidental":             incidental,
		"known_findings_hit":     known,
		"worker_crashes":         len(a.crashes),
		"components": map[string][]string{
			"real": {"package raft (election, replication, membership, transfer, snapshots, FSM loop, server loop, connection pool, codecs) instrumented from the current tree", "package raft/log", "package raft/mmap", "real files and real mmap/msync/rename on tmpfs"},
			"stub": {"goroutine scheduler", "clock and timers", "net.Conn/listener/dialer", "crash imaging and restart", "crypto/rand", "FSM (recording)", "clients and admin actors"},
		},
	}
	ev := map[string]interface{}{
		"property_id": spec.ID,
		"tier":        tier,
		"seed":        int64(seed & 0x7fffffffffffffff),
		"level":       level,
		"coverage":    cov,
		"assumptions": []string{
			"the operating system below the file facade (page cache coherence of shared mappings, rename atomicity) is trusted",
			"interleavings are explored at scheduling points (channel operations, select, go, locks, file, network and timer calls); finer interleavings only through the race build",
			"seeded sampling: a clean batch is evidence, not proof",
		},
		"wall_s":     wall,
		// violations of this property that known_findings.json does not list (each printed as a
		// VIOLATION line); hits of listed open findings are in coverage.known_findings_hit
		"violations": unlisted,
	}
	b, _ := json.MarshalIndent(ev, "", " ")
	_ = os.MkdirAll(filepath.Join(verifDir, "evidence"), 0755)
	_ = os.WriteFile(filepath.Join(verifDir, "evidence", spec.ID+".json"), b, 0644)
}

// ---- replay and shrinking -----------------------------------------------------------------------

type replayFile struct {
	Property  string          `json:"property"`
	Oracle    string          `json:"oracle"`
	Signature string          `json:"signature"`
	Message   string          `json:"message"`
	Step      uint64          `json:"step"`
	Seed      uint64          `json:"seed"`
	Profile   string          `json:"profile"`
	Scale     int             `json:"scale"`
	Target    string          `json:"target"`
	Engine    string          `json:"engine"`
	Config    json.RawMessage `json:"config"`
	Tape      [][]uint32      `json:"tape"`
	Tail      []string        `json:"events_tail"`
	Hash      string          `json:"schedule_hash"`
	Shrunk    bool            `json:"shrunk"`
	SeedOnly  bool            `json:"seed_only,omitempty"`
}

func loadReplay(path string) (*replayFile, error) {
	b, err := os.ReadFile(path)
	if err != nil {
		return nil, err
	}
	var rf replayFile
	if err := json.Unmarshal(b, &rf); err != nil {
		return nil, err
	}
	if rf.Engine == "" {
		rf.Engine = "raft"
	}
	return &rf, nil
}

// replayOnce executes a replay file in a fresh process and returns its result.
func replayOnce(bdir string, path string, outDir string, trace string) (*runResult, string) {
	rf, err := loadReplay(path)
	if err != nil {
		return nil, err.Error()
	}
	jb := job{Replay: path, ReplayDir: outDir, Trace: trace, Engine: rf.Engine}
	b := runWorker(bdir, jb, false, 10*time.Minute)
	if b.crashed != "" && len(b.results) == 0 {
		return nil, b.crashed
	}
	if len(b.results) == 0 {
		return nil, "no result"
	}
	return &b.results[0], ""
}

func cmdReplay(path string) int {
	rf, err := loadReplay(path)
	if err != nil {
		fatal2("%v", err)
	}
	if rf.Engine == "race" {
		return replayRace(path, rf)
	}
	bdir := build(false)
	tmp, _ := os.MkdirTemp("/dev/shm", "verif-replay-")
	defer os.RemoveAll(tmp)
	trace := os.Getenv("VERIF_TRACE")
	res, errs := replayOnce(bdir, path, tmp, trace)
	if res == nil {
		fatal2("replay failed: %s", errs)
	}
	if res.Infra != "" {
		fatal2("replay: simulator trouble: %s", res.Infra)
	}
	if res.Violation == nil {
		fmt.Printf("replay of %s: no violation (recorded: %s %q at step %d)\n", path, rf.Property, rf.Signature, rf.Step)
		return 2
	}
	v := res.Violation
	if v.Prop != rf.Property || v.Sig != rf.Signature {
		fmt.Printf("replay of %s: different violation: got %s %q, recorded %s %q\n", path, v.Prop, v.Sig, rf.Property, rf.Signature)
		return 2
	}
	fmt.Printf("VIOLATION property=%s replay=%s\n  reproduced: oracle=%s signature=%q step=%d (recorded step %d)\n  %s\n", v.Prop, path, v.Oracle, v.Sig, v.Step, rf.Step, firstLines(v.Msg, 30))
	return 1
}

// replayRace re-runs the seeds of a race report in the free-running race build. The
// interleaving is the Go scheduler's, so the same pair of access sites is looked for over
// several attempts; not finding it again is inconclusive (exit 2), never a pass.
func replayRace(path string, rf *replayFile) int {
	b, _ := os.ReadFile(path)
	var raw struct {
		Seed uint64 `json:"seed"`
		From uint64 `json:"from"`
	}
	_ = json.Unmarshal(b, &raw)
	bdir := build(true)
	for attempt := 0; attempt < 12; attempt++ {
		tmp, _ := os.MkdirTemp("/dev/shm", "verif-race-replay-")
		jb := job{Profile: "racefree", BaseSeed: raw.Seed, From: raw.From, Count: 4, Out: filepath.Join(tmp, "out.jsonl"), MaxWallS: 120}
		jbytes, _ := json.Marshal(jb)
		jf := filepath.Join(tmp, "job.json")
		_ = os.WriteFile(jf, jbytes, 0644)
		cmd := exec.Command(filepath.Join(bdir, "raft.race.test"), "-test.run", "^TestRaceWorker$", "-test.timeout", "0")
		cmd.Env = append(env(), "VERIF_JOB="+jf, "GOMAXPROCS=4", "GORACE=halt_on_error=0 exitcode=66 log_path="+filepath.Join(tmp, "race.log"))
		_, _ = cmd.CombinedOutput()
		reps := parseRaceLogs(tmp)
		_ = os.RemoveAll(tmp)
		for _, r := range reps {
			if r.sig == rf.Signature {
				fmt.Printf("VIOLATION property=C15 replay=%s\n  reproduced (attempt %d): %s\n%s\n", path, attempt+1, r.sig, firstLines(r.text, 40))
				return 1
			}
		}
	}
	fmt.Printf("replay of %s: the race %q was not reported again in 12 attempts (free-running mode is not deterministic)\n", path, rf.Signature)
	return 2
}

// shrink minimises the tape of a replay file while the same property and
// signature keep firing. Returns the path of the minimised file ("" if the
// original did not even reproduce).
func shrink(bdir string, path string, budget time.Duration) string {
	deadline := time.Now().Add(budget)
	rf, err := loadReplay(path)
	if err != nil {
		return ""
	}
	tmp, _ := os.MkdirTemp("/dev/shm", "verif-shrink-")
	defer os.RemoveAll(tmp)
	execs := 0
	try := func(tape [][]uint32) (*runResult, [][]uint32) {
		execs++
		cand := *rf
		cand.Tape = tape
		cpath := filepath.Join(tmp, fmt.Sprintf("cand%d.json", execs))
		b, _ := json.Marshal(cand)
		_ = os.WriteFile(cpath, b, 0644)
		odir := filepath.Join(tmp, fmt.Sprintf("o%d", execs))
		res, _ := replayOnce(bdir, cpath, odir, "")
		_ = os.Remove(cpath)
		if res == nil || res.Violation == nil || res.Violation.Prop != rf.Property || res.Violation.Sig != rf.Signature {
			_ = os.RemoveAll(odir)
			return nil, nil
		}
		// the worker rewrote the (normalised, truncated) tape
		nrf, err := loadReplay(res.ReplayAt)
		_ = os.RemoveAll(odir)
		if err != nil {
			return res, tape
		}
		return res, nrf.Tape
	}
	cp := func(t [][]uint32) [][]uint32 {
		out := make([][]uint32, len(t))
		for i := range t {
			out[i] = append([]uint32(nil), t[i]...)
		}
		return out
	}
	best := cp(rf.Tape)
	res, norm := try(best)
	if res == nil {
		return ""
	}
	best = norm
	bestRes := res
	nonzero := func(t [][]uint32) int {
		n := 0
		for _, s := range t {
			for _, v := range s {
				if v != 0 {
					n++
				}
			}
		}
		return n
	}
	// 1. whole streams to zero (schedule, net, misc, disk, plan)
	for _, st := range []int{2, 3, 5, 4, 1} {
		if time.Now().After(deadline) || st >= len(best) {
			break
		}
		c := cp(best)
		for i := range c[st] {
			c[st][i] = 0
		}
		if r, n := try(c); r != nil {
			best, bestRes = n, r
		}
	}
	// 2. blocks to zero, per stream, halving block size
	for _, st := range []int{1, 2, 3, 4, 5, 0} {
		if st >= len(best) {
			continue
		}
		for size := (len(best[st]) + 1) / 2; size >= 1 && execs < 400 && time.Now().Before(deadline); size /= 2 {
			for off := 0; off < len(best[st]) && execs < 400 && time.Now().Before(deadline); off += size {
				end := off + size
				if end > len(best[st]) {
					end = len(best[st])
				}
				any := false
				for _, v := range best[st][off:end] {
					if v != 0 {
						any = true
						break
					}
				}
				if !any {
					continue
				}
				c := cp(best)
				for i := off; i < end; i++ {
					c[st][i] = 0
				}
				if r, n := try(c); r != nil {
					best, bestRes = n, r
				}
			}
			if size == 1 {
				break
			}
		}
	}
	out := *rf
	out.Tape = best
	out.Shrunk = true
	out.Step = bestRes.Violation.Step
	out.Message = bestRes.Violation.Msg
	out.Hash = bestRes.Hash
	// keep the event tail of the minimised run
	if nrf, err := loadReplay(bestRes.ReplayAt); err == nil {
		out.Tail = nrf.Tail
	}
	opath := strings.TrimSuffix(path, ".json") + ".min.json"
	b, _ := json.Marshal(out)
	if err := os.WriteFile(opath, b, 0644); err != nil {
		return ""
	}
	fmt.Fprintf(os.Stderr, "check: shrink: %d executions, non-zero tape cells %d -> %d, steps %d -> %d\n", execs, nonzero(rf.Tape), nonzero(best), rf.Step, out.Step)
	// final confirmation in a fresh process
	if r, _ := replayOnce(bdir, opath, filepath.Join(tmp, "final"), ""); r == nil || r.Violation == nil || r.Violation.Sig != rf.Signature {
		return path
	}
	return opath
}

// ---- determinism self-test --------------------------------------------------------------------------

func cmdSelftest(args []string) int {
	if args[0] != "determinism" {
		fatal2("unknown selftest %q", args[0])
	}
	bdir := build(false)
	seeds := 40
	procs := 30
	if len(args) > 1 {
		seeds, _ = strconv.Atoi(args[1])
	}
	if len(args) > 2 {
		procs, _ = strconv.Atoi(args[2])
	}
	base := seedFromEnv()
	profNames := []string{"mix", "elect", "snap", "member", "crash", "repl", "transfer", "snapmember", "identity", "diskerr", "logseq", "logcrash"}
	type key struct {
		prof string
		seed uint64
	}
	hashes := map[key]map[string]int{}
	var mu sync.Mutex
	var wg sync.WaitGroup
	sem := make(chan struct{}, 16)
	gmp := []string{"1", "4", "16"}
	bad := 0
	for p := 0; p < procs; p++ {
		for pi, prof := range profNames {
			wg.Add(1)
			sem <- struct{}{}
			go func(p, pi int, prof string) {
				defer wg.Done()
				defer func() { <-sem }()
				per := uint64((seeds + len(profNames) - 1) / len(profNames))
				jb := job{Profile: prof, BaseSeed: base + uint64(pi), From: 0, Count: per, Engine: "raft"}
				if strings.HasPrefix(prof, "log") {
					jb.Engine = "log"
					jb.Count = per * 20 // log programs are short
				}
				os.Setenv("GOMAXPROCS_OVERRIDE", gmp[p%3])
				b := runWorkerGMP(bdir, jb, gmp[p%3])
				mu.Lock()
				defer mu.Unlock()
				if b.crashed != "" {
					fmt.Fprintln(os.Stderr, b.crashed)
					bad++
				}
				for _, r := range b.results {
					if r.Infra != "" {
						fmt.Fprintf(os.Stderr, "infra: seed %d: %s\n", r.Seed, r.Infra)
						bad++
					}
					k := key{prof, r.Seed}
					if hashes[k] == nil {
						hashes[k] = map[string]int{}
					}
					v := ""
					if r.Violation != nil {
						v = r.Violation.Prop + ":" + r.Violation.Sig
					}
					hashes[k][fmt.Sprintf("%s/%d/%s", r.Hash, r.Steps, v)]++
				}
			}(p, pi, prof)
		}
	}
	wg.Wait()
	mismatch := 0
	total := 0
	for k, hs := range hashes {
		total++
		if len(hs) != 1 {
			mismatch++
			fmt.Printf("NONDETERMINISTIC profile=%s seed=%d: %v\n", k.prof, k.seed, hs)
		}
	}
	fmt.Printf("determinism: %d (profile,seed) pairs x %d processes at GOMAXPROCS 1/4/16: %d mismatches, %d failures\n", total, procs, mismatch, bad)
	if mismatch > 0 || bad > 0 {
		return 2
	}
	return 0
}

func runWorkerGMP(bdir string, jb job, gmp string) batch {
	b := batch{jb: jb}
	tmp, err := os.MkdirTemp("/dev/shm", "verif-job-")
	if err != nil {
		b.crashed = err.Error()
		return b
	}
	defer os.RemoveAll(tmp)
	jb.Out = filepath.Join(tmp, "out.jsonl")
	jf := filepath.Join(tmp, "job.json")
	jbytes, _ := json.Marshal(jb)
	_ = os.WriteFile(jf, jbytes, 0644)
	cmd := exec.Command(filepath.Join(bdir, jb.Engine+".test"), "-test.run", "^TestSimWorker$", "-test.timeout", "0")
	cmd.Env = append(env(), "VERIF_JOB="+jf, "GOMAXPROCS="+gmp)
	out, werr := cmd.CombinedOutput()
	if f, err := os.Open(jb.Out); err == nil {
		sc := bufio.NewScanner(f)
		sc.Buffer(make([]byte, 1<<20), 64<<20)
		for sc.Scan() {
			var r runResult
			if json.Unmarshal(sc.Bytes(), &r) == nil && r.Starting == nil {
				b.results = append(b.results, r)
			}
		}
		f.Close()
	}
	if werr != nil {
		b.crashed = fmt.Sprintf("worker died: %v\n%s", werr, out)
	}
	return b
}
