// simgen instruments the current working tree of the repository for the
// deterministic simulator: it writes rewritten copies of every non-test file
// of the packages raft, raft/log and raft/mmap (and of harness files that ask
// for it) plus an overlay and a modfile, so that `go test -overlay -modfile`
// builds the simulated system without touching the repository.
//
// Any construct it cannot classify is an error (exit 2), never a silent
// pass-through.
package main

import (
	"bytes"
	"encoding/json"
	"flag"
	"fmt"
	"go/ast"
	"go/parser"
	"go/printer"
	"go/token"
	"go/types"
	"os"
	"path/filepath"
	"reflect"
	"sort"
	"strconv"
	"strings"

	"golang.org/x/tools/go/ast/astutil"
	"golang.org/x/tools/go/packages"
)

var facades = map[string]string{
	"time":                  "verif.local/sim/simtime",
	"os":                    "verif.local/sim/simos",
	"io/ioutil":             "verif.local/sim/simioutil",
	"sync":                  "verif.local/sim/simsync",
	"crypto/rand":           "verif.local/sim/simcrand",
	"golang.org/x/sys/unix": "verif.local/sim/simunix",
}

var facadeNames = map[string]string{
	"time": "time", "os": "os", "io/ioutil": "ioutil", "sync": "sync", "crypto/rand": "rand",
	"golang.org/x/sys/unix": "unix",
}

// functions wrapped with entry/exit probes: "Recv.name" or "name"
var probes = map[string]bool{
	"Raft.onRequest":                true,
	"Raft.onVoteRequest":            true,
	"Raft.onAppendEntriesRequest":   true,
	"Raft.onInstallSnapRequest":     true,
	"Raft.onTimeoutNowRequest":      true,
	"Raft.replyRPC":                 true,
	"leader.doChangeConfig":         true,
	"leader.onTransfer":             true,
	"leader.tryTransfer":            true,
	"leader.storeEntry":             true,
	"Raft.onTakeSnapshot":           true,
	"Raft.onSnapshotTaken":          true,
	"Raft.compactLog":               true,
	"candidate.startElection":       true,
	"candidate.onVoteResult":        true,
	"connPool.getConn":              true,
	"connPool.doRPC":                true,
	"storage.removeGTE":             true,
	"storage.clearLog":              true,
	"replication.runLoop":           true,
	"Raft.setCommitIndex":           true,
	"follower.onTimeout":            true,
	"connPool.returnConn":           true,
	"replication.onAppendEntriesResp": true,
}

type pkgSpec struct {
	rel     string // directory relative to repo
	harness string // harness directory name under -harness ("" none)
	probes  bool
}

var pkgs = []pkgSpec{
	{".", "raft", true},
	{"log", "log", false},
	{"mmap", "", false},
}

type site struct {
	ID   uint32 `json:"id"`
	File string `json:"file"`
	Line int    `json:"line"`
	Kind string `json:"kind"`
	Func string `json:"func"`
}

var kindNames = map[uint32]string{1: "recv", 2: "send", 3: "select", 4: "go", 5: "close", 6: "map"}

const (
	kRecv uint32 = iota + 1
	kSend
	kSelect
	kGo
	kClose
	kMap
)

func fatal(format string, a ...interface{}) {
	fmt.Fprintf(os.Stderr, "simgen: "+format+"\n", a...)
	os.Exit(2)
}

func main() {
	repo := flag.String("repo", "/repo", "repository root")
	harness := flag.String("harness", "/verif/harness", "harness root")
	simdir := flag.String("sim", "/verif/sim", "simulator module directory")
	out := flag.String("out", "", "output directory")
	flag.Parse()
	if *out == "" {
		fatal("-out required")
	}
	must(os.MkdirAll(*out, 0755))

	// modfile
	gomod, err := os.ReadFile(filepath.Join(*repo, "go.mod"))
	must(err)
	mod := string(gomod) + fmt.Sprintf("\nrequire verif.local/sim v0.0.0\nrequire github.com/anishathalye/porcupine v1.3.0\nreplace verif.local/sim => %s\n", *simdir)
	modfile := filepath.Join(*out, "sim.mod")
	must(os.WriteFile(modfile, []byte(mod), 0644))
	gosum, _ := os.ReadFile(filepath.Join(*repo, "go.sum"))
	extra, _ := os.ReadFile(filepath.Join(*simdir, "go.sum"))
	extra2, _ := os.ReadFile(filepath.Join(*simdir, "extra.sum"))
	must(os.WriteFile(filepath.Join(*out, "sim.sum"), append(append(gosum, extra...), extra2...), 0644))

	// phase 1 overlay: harness files added under the repo's package dirs,
	// the repository's own test files hidden.
	overlay := map[string]string{}
	type hfile struct{ virt, src string }
	harnessFiles := map[string][]hfile{} // rel -> files
	for _, p := range pkgs {
		dir := filepath.Join(*repo, p.rel)
		ents, err := os.ReadDir(dir)
		must(err)
		for _, e := range ents {
			if strings.HasSuffix(e.Name(), "_test.go") {
				overlay[filepath.Join(dir, e.Name())] = ""
			}
		}
		if p.harness == "" {
			continue
		}
		hdir := filepath.Join(*harness, p.harness)
		hents, err := os.ReadDir(hdir)
		if err != nil {
			continue
		}
		for _, e := range hents {
			if !strings.HasSuffix(e.Name(), ".go") {
				continue
			}
			name := "zz_verif_" + strings.TrimSuffix(e.Name(), ".go")
			if !strings.HasSuffix(name, "_test") {
				name += "_test"
			}
			virt := filepath.Join(dir, name+".go")
			src := filepath.Join(hdir, e.Name())
			overlay[virt] = src
			harnessFiles[p.rel] = append(harnessFiles[p.rel], hfile{virt, src})
		}
	}
	for _, p := range pkgs {
		if p.harness == "" {
			continue
		}
		if _, err := os.Stat(filepath.Join(*harness, p.harness)); err != nil {
			continue
		}
		// placeholder for the generated site table so that the harness type-checks
		pkgName := map[string]string{".": "raft", "log": "log"}[p.rel]
		stub := filepath.Join(*out, "sites_stub_"+pkgName+".go")
		must(os.WriteFile(stub, []byte("//go:build go1.20\n\npackage "+pkgName+"\n\ntype simSite struct{ File string; Line int; Kind, Func string }\n\nvar simSites = map[uint32]simSite{}\n"), 0644))
		virt := filepath.Join(*repo, p.rel, "zz_verif_sites_test.go")
		overlay[virt] = stub
		harnessFiles[p.rel] = append(harnessFiles[p.rel], hfile{virt, stub})
	}
	pre := filepath.Join(*out, "overlay.pre.json")
	writeOverlay(pre, overlay)

	cfg := &packages.Config{
		Mode: packages.NeedName | packages.NeedFiles | packages.NeedCompiledGoFiles | packages.NeedSyntax |
			packages.NeedTypes | packages.NeedTypesInfo | packages.NeedImports,
		Dir:        *repo,
		Tests:      true,
		BuildFlags: []string{"-modfile=" + modfile, "-overlay=" + pre, "-tags=verif"},
		Env:        append(os.Environ(), "GOFLAGS=-mod=mod", "GOPROXY=off", "GOSUMDB=off", "GOTOOLCHAIN=local", "PATH=/opt/veriftools/go1.26.8/bin:"+os.Getenv("PATH")),
	}
	cfg.Overlay = map[string][]byte{}
	for _, hfs := range harnessFiles {
		for _, hf := range hfs {
			b, err := os.ReadFile(hf.src)
			must(err)
			cfg.Overlay[hf.virt] = b
		}
	}
	var patterns []string
	for _, p := range pkgs {
		patterns = append(patterns, "./"+p.rel)
	}
	loaded, err := packages.Load(cfg, patterns...)
	if err != nil {
		fatal("load: %v", err)
	}
	nerr := 0
	for _, lp := range loaded {
		for _, e := range lp.Errors {
			fmt.Fprintln(os.Stderr, "simgen: load:", e)
			nerr++
		}
	}
	if nerr > 0 {
		os.Exit(2)
	}

	final := map[string]string{}
	for k, v := range overlay {
		final[k] = v
	}
	var allSites []site
	srcOut := filepath.Join(*out, "src")
	for _, p := range pkgs {
		dir := filepath.Join(*repo, p.rel)
		// choose the variant with test files when there is one
		var best *packages.Package
		for _, lp := range loaded {
			if len(lp.GoFiles) == 0 || filepath.Dir(lp.GoFiles[0]) != filepath.Clean(dir) {
				continue
			}
			if strings.HasSuffix(lp.ID, ".test") || strings.HasSuffix(lp.Name, "_test") {
				continue
			}
			if best == nil || len(lp.Syntax) > len(best.Syntax) {
				best = lp
			}
		}
		if best == nil {
			fatal("package at %s not loaded", dir)
		}
		instrumentHarness := map[string]bool{}
		for _, hf := range harnessFiles[p.rel] {
			b, _ := os.ReadFile(hf.src)
			if bytes.Contains(b, []byte("//simgen:instrument")) {
				instrumentHarness[hf.virt] = true
			}
		}
		var psites []site
		for i, f := range best.Syntax {
			fname := best.CompiledGoFiles[i]
			isHarness := strings.HasPrefix(filepath.Base(fname), "zz_verif_")
			if filepath.Base(fname) == "zz_verif_sites_test.go" {
				continue
			}
			if isHarness && !instrumentHarness[fname] {
				continue
			}
			if strings.HasSuffix(fname, "_test.go") && !isHarness {
				fatal("unexpected test file %s in load", fname)
			}
			in := &inst{fset: best.Fset, info: best.TypesInfo, file: f, fname: fname, siteBase: uint32(len(allSites) + len(psites)),
				doProbes: p.probes && !isHarness}
			in.run()
			psites = append(psites, in.sites...)
			var buf bytes.Buffer
			buf.WriteString("//go:build go1.20\n\n")
			f.Comments = nil
			stripPositions(f)
			if err := printer.Fprint(&buf, best.Fset, f); err != nil {
				fatal("print %s: %v", fname, err)
			}
			// sanity: the result must parse
			if _, err := parser.ParseFile(token.NewFileSet(), fname, buf.Bytes(), 0); err != nil {
				_ = os.WriteFile(filepath.Join(*out, "bad.go"), buf.Bytes(), 0644)
				fatal("instrumented %s does not parse: %v (see %s/bad.go)", fname, err, *out)
			}
			rel, _ := filepath.Rel(*repo, fname)
			dst := filepath.Join(srcOut, rel)
			must(os.MkdirAll(filepath.Dir(dst), 0755))
			must(os.WriteFile(dst, buf.Bytes(), 0644))
			final[fname] = dst
		}
		allSites = append(allSites, psites...)
		if _, hasHarness := final[filepath.Join(dir, "zz_verif_sites_test.go")]; hasHarness {
			// site table as Go source in the package
			var sb strings.Builder
			sb.WriteString("//go:build go1.20\n\npackage " + best.Name + "\n\n")
			sb.WriteString("type simSite struct{ File string; Line int; Kind, Func string }\n\n")
			sb.WriteString("var simSites = map[uint32]simSite{\n")
			for _, s := range allSites {
				fmt.Fprintf(&sb, "\t%#x: {%q, %d, %q, %q},\n", s.ID, s.File, s.Line, s.Kind, s.Func)
			}
			sb.WriteString("}\n")
			dst := filepath.Join(srcOut, p.rel, "zz_verif_sites_test.go")
			must(os.MkdirAll(filepath.Dir(dst), 0755))
			must(os.WriteFile(dst, []byte(sb.String()), 0644))
			final[filepath.Join(dir, "zz_verif_sites_test.go")] = dst
		}
	}
	for name := range probes {
		fatal("probe target %s not found", name)
	}
	writeOverlay(filepath.Join(*out, "overlay.json"), final)
	b, _ := json.MarshalIndent(allSites, "", " ")
	must(os.WriteFile(filepath.Join(*out, "sites.json"), b, 0644))
	census := map[string]int{}
	for _, s := range allSites {
		census[s.Kind]++
	}
	fmt.Printf("simgen: %d sites %v\n", len(allSites), census)
}

func writeOverlay(path string, m map[string]string) {
	b, _ := json.MarshalIndent(map[string]interface{}{"Replace": m}, "", " ")
	must(os.WriteFile(path, b, 0644))
}

func must(err error) {
	if err != nil {
		fatal("%v", err)
	}
}

// ---- instrumenter -----------------------------------------------------------------

type inst struct {
	fset     *token.FileSet
	info     *types.Info
	file     *ast.File
	fname    string
	sites    []site
	siteBase uint32
	n        int
	doProbes bool

	skip      map[ast.Node]bool     // select comm receive/send: handled by the select rewrite
	recv2     map[ast.Node]bool     // receive in a two-value context
	rangeKind map[*ast.RangeStmt]int // 1 chan, 2 map
	untyped   map[ast.Expr]bool     // expression must stay inline (untyped constant / nil)
	isClose   map[*ast.CallExpr]bool
	hoist     map[ast.Stmt]int // generated block -> index of the statement that takes the label
	funcStack []string
	usedRT    bool
}

func (in *inst) site(kind uint32, pos token.Pos) string {
	p := in.fset.Position(pos)
	id := kind<<24 | (in.siteBase + uint32(len(in.sites)) + 1)
	fn := ""
	if len(in.funcStack) > 0 {
		fn = in.funcStack[len(in.funcStack)-1]
	}
	in.sites = append(in.sites, site{id, filepath.Base(p.Filename), p.Line, kindNames[kind], fn})
	in.usedRT = true
	return fmt.Sprintf("%#x", id)
}

func (in *inst) src(n ast.Node) string {
	var buf bytes.Buffer
	if err := printer.Fprint(&buf, in.fset, n); err != nil {
		fatal("%s: print: %v", in.fname, err)
	}
	return buf.String()
}

func (in *inst) stmtsSrc(list []ast.Stmt) string {
	var sb strings.Builder
	for _, s := range list {
		sb.WriteString(in.src(s))
		sb.WriteString("\n")
	}
	return sb.String()
}

func (in *inst) parseStmts(text string, ctx ast.Node) []ast.Stmt {
	srcText := "package p\nfunc _() {\n" + text + "\n}"
	f, err := parser.ParseFile(token.NewFileSet(), "", srcText, 0)
	if err != nil {
		fatal("%s:%d: generated code does not parse: %v\n%s", in.fname, in.fset.Position(ctx.Pos()).Line, err, text)
	}
	body := f.Decls[0].(*ast.FuncDecl).Body.List
	clearPos(body)
	return body
}

func (in *inst) parseExpr(text string, ctx ast.Node) ast.Expr {
	e, err := parser.ParseExpr(text)
	if err != nil {
		fatal("%s:%d: generated expression does not parse: %v\n%s", in.fname, in.fset.Position(ctx.Pos()).Line, err, text)
	}
	clearPosNode(e)
	return e
}

// clearPos removes position information from generated nodes so that the
// printer lays them out canonically.
func clearPos(list []ast.Stmt) {
	for _, s := range list {
		clearPosNode(s)
	}
}

func clearPosNode(n ast.Node) {
	ast.Inspect(n, func(n ast.Node) bool {
		switch x := n.(type) {
		case *ast.Ident:
			x.NamePos = token.NoPos
		case *ast.BasicLit:
			x.ValuePos = token.NoPos
		case *ast.BlockStmt:
			x.Lbrace, x.Rbrace = token.NoPos, token.NoPos
		case *ast.CallExpr:
			x.Lparen, x.Rparen = token.NoPos, token.NoPos
		case *ast.CompositeLit:
			x.Lbrace, x.Rbrace = token.NoPos, token.NoPos
		case *ast.FuncLit:
			x.Type.Func = token.NoPos
		}
		return true
	})
}

func (in *inst) isUntyped(e ast.Expr) bool {
	tv, ok := in.info.Types[e]
	if !ok {
		return false
	}
	if tv.IsNil() {
		return true
	}
	if b, ok := tv.Type.(*types.Basic); ok && b.Info()&types.IsUntyped != 0 {
		return true
	}
	return false
}

func unparen(e ast.Expr) ast.Expr {
	for {
		p, ok := e.(*ast.ParenExpr)
		if !ok {
			return e
		}
		e = p.X
	}
}

func isRecv(e ast.Expr) (*ast.UnaryExpr, bool) {
	u, ok := unparen(e).(*ast.UnaryExpr)
	if ok && u.Op == token.ARROW {
		return u, true
	}
	return nil, false
}

func (in *inst) run() {
	in.skip = map[ast.Node]bool{}
	in.recv2 = map[ast.Node]bool{}
	in.rangeKind = map[*ast.RangeStmt]int{}
	in.untyped = map[ast.Expr]bool{}
	in.isClose = map[*ast.CallExpr]bool{}
	in.hoist = map[ast.Stmt]int{}

	// imports
	for _, imp := range in.file.Imports {
		path, _ := strconv.Unquote(imp.Path.Value)
		if repl, ok := facades[path]; ok {
			if imp.Name == nil {
				imp.Name = ast.NewIdent(facadeNames[path])
			}
			imp.Path.Value = strconv.Quote(repl)
		}
	}

	astutil.Apply(in.file, in.pre, in.post)

	if in.doProbes {
		in.addProbes()
	}
	if in.usedRT {
		astutil.AddNamedImport(in.fset, in.file, "simrt", "verif.local/sim/rt")
	}
}

func (in *inst) pre(c *astutil.Cursor) bool {
	switch n := c.Node().(type) {
	case *ast.FuncDecl:
		name := n.Name.Name
		if n.Recv != nil && len(n.Recv.List) > 0 {
			t := n.Recv.List[0].Type
			if s, ok := t.(*ast.StarExpr); ok {
				t = s.X
			}
			if id, ok := t.(*ast.Ident); ok {
				name = id.Name + "." + name
			}
		}
		in.funcStack = append(in.funcStack, name)
	case *ast.SelectStmt:
		for _, cl := range n.Body.List {
			cc := cl.(*ast.CommClause)
			switch comm := cc.Comm.(type) {
			case nil:
			case *ast.SendStmt:
				in.skip[comm] = true
				if in.isUntyped(comm.Value) {
					in.untyped[comm.Value] = true
				}
			case *ast.ExprStmt:
				u, ok := isRecv(comm.X)
				if !ok {
					fatal("%s: unsupported select case", in.pos(comm))
				}
				in.skip[u] = true
			case *ast.AssignStmt:
				if len(comm.Rhs) != 1 {
					fatal("%s: unsupported select case", in.pos(comm))
				}
				u, ok := isRecv(comm.Rhs[0])
				if !ok {
					fatal("%s: unsupported select case", in.pos(comm))
				}
				in.skip[u] = true
			default:
				fatal("%s: unsupported select case %T", in.pos(comm), comm)
			}
		}
	case *ast.AssignStmt:
		if len(n.Lhs) == 2 && len(n.Rhs) == 1 {
			if u, ok := isRecv(n.Rhs[0]); ok {
				in.recv2[u] = true
			}
		}
	case *ast.ValueSpec:
		if len(n.Names) == 2 && len(n.Values) == 1 {
			if u, ok := isRecv(n.Values[0]); ok {
				in.recv2[u] = true
			}
		}
	case *ast.RangeStmt:
		t := in.info.TypeOf(n.X)
		if t == nil {
			fatal("%s: no type for range operand", in.pos(n))
		}
		switch u := t.Underlying().(type) {
		case *types.Chan:
			in.rangeKind[n] = 1
		case *types.Map:
			in.rangeKind[n] = 2
		case *types.Pointer:
			_ = u
		}
	case *ast.SendStmt:
		if in.isUntyped(n.Value) {
			in.untyped[n.Value] = true
		}
	case *ast.GoStmt:
		for _, a := range n.Call.Args {
			if in.isUntyped(a) {
				in.untyped[a] = true
			}
		}
		if id, ok := unparen(n.Call.Fun).(*ast.Ident); ok {
			if _, isB := in.info.Uses[id].(*types.Builtin); isB {
				fatal("%s: go statement on builtin", in.pos(n))
			}
		}
		if tv, ok := in.info.Types[n.Call.Fun]; ok && tv.IsType() {
			fatal("%s: go statement on conversion", in.pos(n))
		}
	case *ast.CallExpr:
		if id, ok := n.Fun.(*ast.Ident); ok && id.Name == "close" {
			if _, isB := in.info.Uses[id].(*types.Builtin); isB {
				in.isClose[n] = true
			}
		}
	}
	return true
}

func (in *inst) pos(n ast.Node) string { return in.fset.Position(n.Pos()).String() }

func (in *inst) next() int { in.n++; return in.n }

func (in *inst) post(c *astutil.Cursor) bool {
	switch n := c.Node().(type) {
	case *ast.FuncDecl:
		in.funcStack = in.funcStack[:len(in.funcStack)-1]
	case *ast.UnaryExpr:
		if n.Op != token.ARROW || in.skip[n] {
			return true
		}
		fn := "simrt.Recv"
		if in.recv2[n] {
			fn = "simrt.Recv2"
		}
		c.Replace(in.parseExpr(fmt.Sprintf("%s(%s, %s)", fn, in.src(n.X), in.site(kRecv, n.Pos())), n))
	case *ast.CallExpr:
		if in.isClose[n] {
			c.Replace(in.parseExpr(fmt.Sprintf("simrt.Close(%s, %s)", in.src(n.Args[0]), in.site(kClose, n.Pos())), n))
		}
	case *ast.SendStmt:
		if in.skip[n] {
			return true
		}
		c.Replace(in.rewriteSend(n))
	case *ast.GoStmt:
		c.Replace(in.rewriteGo(n))
	case *ast.SelectStmt:
		blk, idx := in.rewriteSelect(n)
		in.hoist[blk] = idx
		c.Replace(blk)
	case *ast.RangeStmt:
		switch in.rangeKind[n] {
		case 1:
			blk, idx := in.rewriteRangeChan(n)
			in.hoist[blk] = idx
			c.Replace(blk)
		case 2:
			blk, idx := in.rewriteRangeMap(n)
			in.hoist[blk] = idx
			c.Replace(blk)
		}
	case *ast.LabeledStmt:
		if blk, ok := n.Stmt.(*ast.BlockStmt); ok {
			if idx, ok := in.hoist[blk]; ok {
				// move the label onto the statement that stands for the original
				blk.List[idx] = &ast.LabeledStmt{Label: n.Label, Stmt: blk.List[idx]}
				delete(in.hoist, blk)
				c.Replace(blk)
			}
		}
	}
	return true
}

func (in *inst) rewriteSend(n *ast.SendStmt) ast.Stmt {
	k := in.next()
	s := in.site(kSend, n.Pos())
	val := fmt.Sprintf("_simv%d", k)
	decl := fmt.Sprintf("%s := %s", val, in.src(n.Value))
	if in.untyped[n.Value] {
		val, decl = in.src(n.Value), ""
	}
	text := fmt.Sprintf(`{
	_simc%[1]d := %[2]s
	%[3]s
	simrt.Point(%[4]s)
	select {
	case _simc%[1]d <- %[5]s:
	default:
		_simg%[1]d := simrt.BeginBlock(%[4]s)
		_simc%[1]d <- %[5]s
		simrt.EndBlock(_simg%[1]d)
	}
}`, k, in.src(n.Chan), decl, s, val)
	return in.parseStmts(text, n)[0]
}

func (in *inst) rewriteGo(n *ast.GoStmt) ast.Stmt {
	k := in.next()
	s := in.site(kGo, n.Pos())
	var sb strings.Builder
	fmt.Fprintf(&sb, "{\n_simf%d := %s\n", k, in.src(n.Call.Fun))
	var args []string
	for i, a := range n.Call.Args {
		if in.untyped[a] {
			args = append(args, in.src(a))
			continue
		}
		fmt.Fprintf(&sb, "_sima%d_%d := %s\n", k, i, in.src(a))
		args = append(args, fmt.Sprintf("_sima%d_%d", k, i))
	}
	ell := ""
	if n.Call.Ellipsis.IsValid() {
		ell = "..."
	}
	fmt.Fprintf(&sb, "simrt.Go(%s, func() { _simf%d(%s%s) })\n}", s, k, strings.Join(args, ", "), ell)
	return in.parseStmts(sb.String(), n)[0]
}

func lhsList(lhs []ast.Expr, in *inst) (names []string, blanks []bool) {
	for _, e := range lhs {
		s := in.src(e)
		names = append(names, s)
		blanks = append(blanks, s == "_")
	}
	return
}

func (in *inst) rewriteSelect(n *ast.SelectStmt) (*ast.BlockStmt, int) {
	k := in.next()
	s := in.site(kSelect, n.Pos())
	var pre, poll, block, disp strings.Builder
	ncases := 0
	hasDefault := false
	defaultBody := ""
	idx := 0
	for _, cl := range n.Body.List {
		cc := cl.(*ast.CommClause)
		body := in.stmtsSrc(cc.Body)
		if cc.Comm == nil {
			hasDefault = true
			defaultBody = body
			continue
		}
		i := idx
		idx++
		ncases++
		switch comm := cc.Comm.(type) {
		case *ast.SendStmt:
			fmt.Fprintf(&pre, "_simc%d_%d := %s\n", k, i, in.src(comm.Chan))
			val := fmt.Sprintf("_simv%d_%d", k, i)
			if in.untyped[comm.Value] {
				val = in.src(comm.Value)
			} else {
				fmt.Fprintf(&pre, "%s := %s\n", val, in.src(comm.Value))
			}
			fmt.Fprintf(&poll, "case %d:\nselect {\ncase _simc%d_%d <- %s:\n_simsel%d = %d\ndefault:\n}\n", i, k, i, val, k, i)
			fmt.Fprintf(&block, "case _simc%d_%d <- %s:\n_simsel%d = %d\n", k, i, val, k, i)
			fmt.Fprintf(&disp, "case %d:\n%s\n", i, body)
		case *ast.ExprStmt:
			u, _ := isRecv(comm.X)
			fmt.Fprintf(&pre, "_simc%d_%d := %s\n", k, i, in.src(u.X))
			fmt.Fprintf(&poll, "case %d:\nselect {\ncase <-_simc%d_%d:\n_simsel%d = %d\ndefault:\n}\n", i, k, i, k, i)
			fmt.Fprintf(&block, "case <-_simc%d_%d:\n_simsel%d = %d\n", k, i, k, i)
			fmt.Fprintf(&disp, "case %d:\n%s\n", i, body)
		case *ast.AssignStmt:
			u, _ := isRecv(comm.Rhs[0])
			fmt.Fprintf(&pre, "_simc%d_%d := %s\n", k, i, in.src(u.X))
			fmt.Fprintf(&pre, "_simr%d_%d := simrt.Zero(_simc%d_%d)\n", k, i, k, i)
			two := len(comm.Lhs) == 2
			recvLhs := fmt.Sprintf("_simr%d_%d", k, i)
			if two {
				fmt.Fprintf(&pre, "_simok%d_%d := false\n", k, i)
				recvLhs += fmt.Sprintf(", _simok%d_%d", k, i)
			}
			fmt.Fprintf(&poll, "case %d:\nselect {\ncase %s = <-_simc%d_%d:\n_simsel%d = %d\ndefault:\n}\n", i, recvLhs, k, i, k, i)
			fmt.Fprintf(&block, "case %s = <-_simc%d_%d:\n_simsel%d = %d\n", recvLhs, k, i, k, i)
			names, blanks := lhsList(comm.Lhs, in)
			temps := []string{fmt.Sprintf("_simr%d_%d", k, i), fmt.Sprintf("_simok%d_%d", k, i)}
			var assign strings.Builder
			if two {
				fmt.Fprintf(&assign, "_ = _simok%d_%d\n", k, i)
			}
			fmt.Fprintf(&assign, "_ = _simr%d_%d\n", k, i)
			for j, name := range names {
				if blanks[j] {
					continue
				}
				if comm.Tok == token.DEFINE {
					fmt.Fprintf(&assign, "%s := %s\n_ = %s\n", name, temps[j], name)
				} else {
					fmt.Fprintf(&assign, "%s = %s\n", name, temps[j])
				}
			}
			fmt.Fprintf(&disp, "case %d:\n%s%s\n", i, assign.String(), body)
		}
	}
	var text strings.Builder
	fmt.Fprintf(&text, "{\n%s_simsel%d := -1\nsimrt.Point(%s)\n", pre.String(), k, s)
	if ncases > 0 {
		fmt.Fprintf(&text, "for _, _simi%d := range simrt.Perm(%d) {\nswitch _simi%d {\n%s}\nif _simsel%d >= 0 {\nbreak\n}\n}\n", k, ncases, k, poll.String(), k)
	}
	if hasDefault {
		fmt.Fprintf(&text, "if _simsel%d < 0 {\n_simsel%d = %d\n}\n", k, k, ncases)
		fmt.Fprintf(&disp, "default:\n%s\n", defaultBody)
	} else if ncases > 0 {
		fmt.Fprintf(&disp, "default:\npanic(\"simrt: select dispatch\")\n")
		fmt.Fprintf(&text, "if _simsel%d < 0 {\n_simg%d := simrt.BeginBlock(%s)\nselect {\n%s}\nsimrt.EndBlock(_simg%d)\n}\n", k, k, s, block.String(), k)
	} else {
		// select {} blocks forever
		fmt.Fprintf(&text, "_simg%d := simrt.BeginBlock(%s)\nselect {}\nsimrt.EndBlock(_simg%d)\n", k, s, k)
	}
	fmt.Fprintf(&text, "switch _simsel%d {\n%s}\n}", k, disp.String())
	stmts := in.parseStmts(text.String(), n)
	blk := stmts[0].(*ast.BlockStmt)
	return blk, len(blk.List) - 1
}

func (in *inst) rewriteRangeChan(n *ast.RangeStmt) (*ast.BlockStmt, int) {
	k := in.next()
	s := in.site(kRecv, n.Pos())
	if n.Value != nil {
		fatal("%s: range over channel with two variables", in.pos(n))
	}
	var text strings.Builder
	fmt.Fprintf(&text, "{\n_simc%d := %s\n", k, in.src(n.X))
	key := "_"
	if n.Key != nil {
		key = in.src(n.Key)
	}
	if key != "_" && n.Tok == token.DEFINE {
		fmt.Fprintf(&text, "%s := simrt.Zero(_simc%d)\n_ = %s\n", key, k, key)
	}
	fmt.Fprintf(&text, "for {\nvar _simok%d bool\n%s, _simok%d = simrt.Recv2(_simc%d, %s)\nif !_simok%d {\nbreak\n}\n%s}\n}", k, key, k, k, s, k, in.stmtsSrc(n.Body.List))
	blk := in.parseStmts(text.String(), n)[0].(*ast.BlockStmt)
	return blk, len(blk.List) - 1
}

func (in *inst) rewriteRangeMap(n *ast.RangeStmt) (*ast.BlockStmt, int) {
	k := in.next()
	s := in.site(kMap, n.Pos())
	var text strings.Builder
	fmt.Fprintf(&text, "{\n_simm%d := %s\n", k, in.src(n.X))
	key, val := "_", "_"
	if n.Key != nil {
		key = in.src(n.Key)
	}
	if n.Value != nil {
		val = in.src(n.Value)
	}
	if n.Tok == token.DEFINE {
		if key != "_" {
			fmt.Fprintf(&text, "%s := simrt.ZeroK(_simm%d)\n_ = %s\n", key, k, key)
		}
		if val != "_" {
			fmt.Fprintf(&text, "%s := simrt.ZeroV(_simm%d)\n_ = %s\n", val, k, val)
		}
	}
	fmt.Fprintf(&text, "for _, _simk%d := range simrt.Keys(_simm%d, %s) {\n_simv%d, _simok%d := _simm%d[_simk%d]\nif !_simok%d {\ncontinue\n}\n_ = _simv%d\n", k, k, s, k, k, k, k, k, k)
	if key != "_" {
		fmt.Fprintf(&text, "%s = _simk%d\n", key, k)
	}
	if val != "_" {
		fmt.Fprintf(&text, "%s = _simv%d\n", val, k)
	}
	fmt.Fprintf(&text, "%s}\n}", in.stmtsSrc(n.Body.List))
	blk := in.parseStmts(text.String(), n)[0].(*ast.BlockStmt)
	return blk, len(blk.List) - 1
}

// ---- function probes ------------------------------------------------------------------

func (in *inst) addProbes() {
	var extra []ast.Decl
	for _, d := range in.file.Decls {
		fd, ok := d.(*ast.FuncDecl)
		if !ok || fd.Body == nil {
			continue
		}
		name := fd.Name.Name
		recvName := ""
		if fd.Recv != nil && len(fd.Recv.List) > 0 {
			t := fd.Recv.List[0].Type
			if s, ok := t.(*ast.StarExpr); ok {
				t = s.X
			}
			if id, ok := t.(*ast.Ident); ok {
				name = id.Name + "." + name
			}
			if len(fd.Recv.List[0].Names) > 0 {
				recvName = fd.Recv.List[0].Names[0].Name
			}
		}
		if !probes[name] {
			continue
		}
		delete(probes, name)
		in.usedRT = true
		orig := fd.Name.Name
		// name parameters
		var params, pnames []string
		pi := 0
		if fd.Type.Params != nil {
			for _, f := range fd.Type.Params.List {
				ts := in.src(f.Type)
				variadic := strings.HasPrefix(ts, "...")
				if len(f.Names) == 0 {
					pn := fmt.Sprintf("_simp%d", pi)
					pi++
					params = append(params, pn+" "+ts)
					if variadic {
						pn += "..."
					}
					pnames = append(pnames, pn)
				}
				for _, nm := range f.Names {
					pn := nm.Name
					if pn == "_" {
						pn = fmt.Sprintf("_simp%d", pi)
						pi++
					}
					params = append(params, pn+" "+ts)
					if variadic {
						pn += "..."
					}
					pnames = append(pnames, pn)
				}
			}
		}
		var results, rnames []string
		if fd.Type.Results != nil {
			ri := 0
			for _, f := range fd.Type.Results.List {
				ts := in.src(f.Type)
				cnt := len(f.Names)
				if cnt == 0 {
					cnt = 1
				}
				for j := 0; j < cnt; j++ {
					results = append(results, ts)
					rnames = append(rnames, fmt.Sprintf("_simr%d", ri))
					ri++
				}
			}
		}
		recv := ""
		call := orig + "__sim"
		probeArgs := []string{}
		if fd.Recv != nil {
			rn := recvName
			if rn == "" || rn == "_" {
				rn = "_simrecv"
			}
			recv = fmt.Sprintf("(%s %s) ", rn, in.src(fd.Recv.List[0].Type))
			call = rn + "." + call
			probeArgs = append(probeArgs, rn)
		}
		for _, p := range pnames {
			probeArgs = append(probeArgs, strings.TrimSuffix(p, "..."))
		}
		var sb strings.Builder
		fmt.Fprintf(&sb, "package p\nfunc %s%s(%s) (%s) {\n", recv, orig, strings.Join(params, ", "), strings.Join(results, ", "))
		fmt.Fprintf(&sb, "simrt.Probe(%q, %s)\n", name+":enter", strings.Join(probeArgs, ", "))
		if len(rnames) > 0 {
			fmt.Fprintf(&sb, "%s := %s(%s)\n", strings.Join(rnames, ", "), call, strings.Join(pnames, ", "))
			fmt.Fprintf(&sb, "simrt.Probe(%q, %s)\n", name+":exit", strings.Join(append(append([]string{}, probeArgs...), rnames...), ", "))
			fmt.Fprintf(&sb, "return %s\n}", strings.Join(rnames, ", "))
		} else {
			fmt.Fprintf(&sb, "%s(%s)\n", call, strings.Join(pnames, ", "))
			fmt.Fprintf(&sb, "simrt.Probe(%q, %s)\n}", name+":exit", strings.Join(probeArgs, ", "))
		}
		f, err := parser.ParseFile(token.NewFileSet(), "", sb.String(), 0)
		if err != nil {
			fatal("%s: probe wrapper for %s does not parse: %v\n%s", in.fname, name, err, sb.String())
		}
		w := f.Decls[0].(*ast.FuncDecl)
		clearPosNode(w)
		fd.Name = ast.NewIdent(orig + "__sim")
		extra = append(extra, w)
	}
	in.file.Decls = append(in.file.Decls, extra...)
}

var posType = reflect.TypeOf(token.NoPos)

// stripPositions removes all position information (keeping the few positions
// that carry meaning) so that the printer lays the file out canonically.
func stripPositions(root ast.Node) {
	ast.Inspect(root, func(n ast.Node) bool {
		if n == nil {
			return false
		}
		v := reflect.ValueOf(n)
		if v.Kind() != reflect.Ptr || v.IsNil() {
			return true
		}
		v = v.Elem()
		if v.Kind() != reflect.Struct {
			return true
		}
		for i := 0; i < v.NumField(); i++ {
			f := v.Field(i)
			if f.Type() != posType {
				continue
			}
			name := v.Type().Field(i).Name
			keep := false
			switch n.(type) {
			case *ast.CallExpr:
				keep = name == "Ellipsis"
			case *ast.GenDecl:
				keep = name == "Lparen" || name == "Rparen"
			case *ast.TypeSpec:
				keep = name == "Assign"
			case *ast.FuncType:
				keep = name == "Func"
			}
			if keep && f.Int() != 0 {
				f.SetInt(1)
			} else {
				f.SetInt(0)
			}
		}
		return true
	})
}

var _ = sort.Strings
