#!/bin/bash
# usage: mutant.sh <seeded dir name> <property id> [wall seconds]  -- applies the seeded change to /repo, runs the check, undoes it
cd /verif
d=/verif/seeded/$1; prop=$2; wall=${3:-60}
git -C /repo diff --quiet || { echo "/repo has uncommitted changes"; exit 2; }
git -C /repo apply $d/patch.diff || { echo "patch does not apply"; exit 2; }
VERIF_WALL_S=$wall VERIF_SEED=${VERIF_SEED:-7} /verif/build/bin/check $prop --tier quick > /tmp/mutant.$1.$prop.log 2>&1
rc=$?
git -C /repo checkout -- .
grep "^VIOLATION\|^KNOWN\|^check\|oracle=" /tmp/mutant.$1.$prop.log | cut -c1-300 | head -8
echo "exit=$rc"
