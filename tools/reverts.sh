#!/bin/bash
# re-introduce each repaired defect (git revert --no-commit of its fix) and run the property's check:
# a fixed finding must be reported again if it ever returns
cd /verif
out=/verif/findings/revert-results.txt
: > $out
while read sha prop name; do
  git -C /repo diff --quiet || { echo "/repo dirty"; exit 2; }
  if ! git -C /repo revert --no-commit $sha >/dev/null 2>&1; then
     git -C /repo revert --abort >/dev/null 2>&1; git -C /repo checkout -- . ; echo "$name $sha $prop: revert does not apply cleanly (later fixes touch the same lines)" >> $out; continue
  fi
  VERIF_WALL_S=${WALL:-45} VERIF_SEED=7 /verif/build/bin/check $prop --tier quick > /tmp/revert.$name.log 2>&1
  rc=$?
  git -C /repo revert --abort >/dev/null 2>&1; git -C /repo reset -q --hard HEAD
  sigs=$(grep "oracle=" /tmp/revert.$name.log | sed 's/.*signature="\([^"]*\)".*/\1/' | sort -u | tr '\n' ' ')
  echo "$name $sha $prop: exit=$rc $(grep '^check' /tmp/revert.$name.log | cut -c1-120) sigs: $sigs" >> $out
done <<LIST
9235dc6 C15 F1
3a73f4e C15 F2
80597ee C01 F3
1a65e0a C10 F4
6113e34 C10 F5
bd92892 C15 F6
d834e5f C15 F7
bfc8a28 C01 F8
cf7cb90 C12 F9
9cd3899 C10 F10
9ebf027 C15 F11
18d355c C06 F12
e7af36d C15 F13
9caf6c3 C08 F14
8dc9025 C19 F15
901eb48 C17 F16
0ae8959 C15 F17
LIST
cat $out
