#!/bin/bash
# usage: revert1.sh <fix sha> <property> [wall seconds] -- re-introduces one repaired defect and runs the property's check
cd /verif
sha=$1; prop=$2; wall=${3:-60}
git -C /repo diff --quiet || { echo "/repo dirty"; exit 2; }
if ! git -C /repo revert --no-commit $sha >/dev/null 2>&1; then
  git -C /repo revert --abort >/dev/null 2>&1; git -C /repo checkout -- . ; echo "$sha: revert does not apply cleanly"; exit 2
fi
VERIF_WALL_S=$wall VERIF_SEED=${VERIF_SEED:-7} /verif/build/bin/check $prop --tier quick > /tmp/revert1.$sha.$prop.log 2>&1
rc=$?
git -C /repo revert --abort >/dev/null 2>&1; git -C /repo reset -q --hard HEAD
sigs=$(grep "oracle=" /tmp/revert1.$sha.$prop.log | sed 's/.*signature="\([^"]*\)".*/\1/' | sort -u | tr '\n' ' ')
echo "$sha $prop: exit=$rc $(grep '^check' /tmp/revert1.$sha.$prop.log | cut -c1-120) sigs: $sigs"
