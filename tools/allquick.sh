#!/bin/bash
# usage: allquick.sh [tier] -- runs every registered check once on the current tree, prints one line per check
tier=${1:-quick}
out=${ALLQ_OUT:-/tmp/allquick}; mkdir -p $out
rc_all=0
for id in $(python3 -c "import json;print(' '.join(c['property_id'] for c in json.load(open('/verif/MANIFEST.json'))['checks']))"); do
  /verif/check.sh $id $tier > $out/$id.log 2>&1; rc=$?
  echo "$id exit=$rc $(grep '^check ' $out/$id.log | tail -1)"
  grep '^VIOLATION\|^KNOWN-FINDING\|simulator trouble' $out/$id.log | cut -c1-160
  [ $rc -ne 0 ] && rc_all=1
done
exit $rc_all
