#!/bin/bash
# revert-regression for the later fix commits (F18..F30): each line "<sha> <property> <name>"
cd /verif
out=/verif/findings/revert-results-2.txt
: > $out
while read sha prop name; do
  [ -z "$sha" ] && continue
  r=$(WALL=${WALL:-75}; /verif/tools/revert1.sh $sha $prop $WALL 2>&1 | tail -1)
  echo "$name $r" >> $out
done <<LIST
b6f68d7 C12 F18
1b379c7 C15 F20
8653801 C15 F21
90e9ad3 C15 F22
fa228da C17 F23
5591be1 C09 F24
b45fd00 C15 F28
6a3b3f6 C11 F29
38d5886 C12 F30
LIST
cat $out
