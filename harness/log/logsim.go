//go:build verif && go1.20

//go:debug asynctimerchan=0

package log

import (
	"bytes"
	"encoding/json"
	"fmt"
	"io"
	"os"
	"path/filepath"
	"sort"
	"strings"
	"testing"
	"testing/synctest"
	"time"
	"unsafe"

	"verif.local/sim/rt"
	"verif.local/sim/simos"
	"verif.local/sim/simunix"
)

// logsim: the segmented log alone against an in-memory sequence model (C13),
// with every I/O boundary of every sampled program taken as a crash point
// (C14): a process-kill image (all writes reached the files) and sampled
// power-loss images (last flushed bytes plus a subset of the pages dirtied
// since) are re-opened with the real Open and compared with what the model
// says must, may and must not be there.

type job struct {
	Profile   string `json:"profile"`
	BaseSeed  uint64 `json:"base_seed"`
	From      uint64 `json:"from"`
	Count     uint64 `json:"count"`
	Out       string `json:"out"`
	ReplayDir string `json:"replay_dir"`
	Replay    string `json:"replay"`
	Trace     string `json:"trace"`
	MaxWallS  int    `json:"max_wall_s"`
	Scale     int    `json:"scale"`
}

type violation struct {
	Prop   string `json:"property"`
	Oracle string `json:"oracle"`
	Sig    string `json:"signature"`
	Msg    string `json:"message"`
	Step   uint64 `json:"step"`
	SimNS  int64  `json:"sim_ns"`
}

type runResult struct {
	Seed       uint64            `json:"seed"`
	K          uint64            `json:"k"`
	Profile    string            `json:"profile"`
	Steps      uint64            `json:"steps"`
	SimNS      int64             `json:"sim_ns"`
	WallMS     int64             `json:"wall_ms"`
	Hash       string            `json:"hash"`
	Config     interface{}       `json:"config"`
	Faults     map[string]int    `json:"faults"`
	Reach      map[string]int    `json:"reach"`
	Counters   map[string]uint64 `json:"counters"`
	Violation  *violation        `json:"violation,omitempty"`
	Infra      string            `json:"infra,omitempty"`
	ReplayAt   string            `json:"replay,omitempty"`
	Phase      string            `json:"phase"`
	Nontrivial map[string]bool   `json:"nontrivial"`
	Digests    int               `json:"digests"`
	Sample     interface{}       `json:"sample,omitempty"`
}

type replayFile struct {
	Property  string                `json:"property"`
	Oracle    string                `json:"oracle"`
	Signature string                `json:"signature"`
	Message   string                `json:"message"`
	Step      uint64                `json:"step"`
	Seed      uint64                `json:"seed"`
	Profile   string                `json:"profile"`
	Scale     int                   `json:"scale"`
	Engine    string                `json:"engine"`
	Config    interface{}           `json:"config"`
	Tape      [rt.NStreams][]uint32 `json:"tape"`
	Tail      []string              `json:"events_tail"`
	Hash      string                `json:"schedule_hash"`
}

// ---- model ---------------------------------------------------------------------------------------

type model struct {
	prev    uint64
	ents    [][]byte // index prev+1+i
	durable uint64   // every index <= durable (and > prev) is covered by a completed commit
}

func (m *model) last() uint64 { return m.prev + uint64(len(m.ents)) }
func (m *model) at(i uint64) []byte {
	if i <= m.prev || i > m.last() {
		return nil
	}
	return m.ents[i-m.prev-1]
}
func (m *model) clone() *model {
	return &model{m.prev, append([][]byte(nil), m.ents...), m.durable}
}

type opRec struct {
	Kind string `json:"op"`
	A    uint64 `json:"a,omitempty"`
	B    uint64 `json:"b,omitempty"`
	Size int    `json:"size,omitempty"`
}

type logRun struct {
	seed         uint64
	prof         string
	tape         *rt.Tape
	sim          *rt.Sim
	dir          string
	base         string
	segSize      int
	l            *Log
	m            *model
	before       *model // model before the operation in progress
	opKind       string
	opArg        uint64
	pending      []byte // the entry an append in progress is writing
	ops          []opRec
	viol         *violation
	infra        string
	stop         bool
	done         bool
	readers      int
	readerQ      rt.WaitQ
	inCheck      bool
	images       int
	plImages     int
	boundaries   int
	reach        map[string]int
	durableBytes map[string][]byte  // path -> bytes as of the last flush of that file
	mapped       map[uintptr]string // mapping start -> path
	crashMode    bool
	entSeq       uint64
}

func (lr *logRun) violate(prop, oracle, sig, format string, a ...interface{}) {
	if lr.viol != nil {
		return
	}
	lr.viol = &violation{prop, oracle, sig, fmt.Sprintf(format, a...), lr.sim.Steps, lr.sim.Now}
	lr.stop = true
}

func (lr *logRun) opts() Options { return Options{FileMode: 0600, SegmentSize: lr.segSize} }

// entry bytes are unique per append so that every read is attributable
func (lr *logRun) newEntry(size int) []byte {
	lr.entSeq++
	b := make([]byte, size)
	for i := range b {
		b[i] = byte(lr.entSeq*131 + uint64(i)*7 + 1)
	}
	if size >= 8 {
		for i := 0; i < 8; i++ {
			b[i] = byte(lr.entSeq >> (8 * i))
		}
	}
	return b
}

// ---- program execution (writer goroutine) -----------------------------------------------------------

func (lr *logRun) callPanics(f func()) (p interface{}) {
	defer func() { p = recover() }()
	f()
	return nil
}

func (lr *logRun) checkState(ctx string) {
	l, m := lr.l, lr.m
	if l.PrevIndex() != m.prev || l.LastIndex() != m.last() || l.Count() != uint64(len(m.ents)) {
		lr.violate("C13", "bounds", "bounds_mismatch", "%s: log reports prev=%d last=%d count=%d, sequence has prev=%d last=%d count=%d", ctx, l.PrevIndex(), l.LastIndex(), l.Count(), m.prev, m.last(), len(m.ents))
		return
	}
	for _, i := range []uint64{m.prev, m.prev + 1, m.last(), m.last() + 1, 0} {
		want := i > m.prev && i <= m.last()
		if l.Contains(i) != want {
			lr.violate("C13", "contains", "contains_mismatch", "%s: Contains(%d)=%v, want %v (prev=%d last=%d)", ctx, i, l.Contains(i), want, m.prev, m.last())
			return
		}
	}
}

func (lr *logRun) readCheck(l *Log, m *model, lo, hi uint64, ctx string) {
	// single reads
	for i := lo; i <= hi && !lr.stop; i++ {
		var b []byte
		var err error
		if p := lr.callPanics(func() { b, err = l.Get(i) }); p != nil {
			lr.violate("C13", "get_panic", "get_panicked", "%s: Get(%d) panicked: %v (range (%d,%d])", ctx, i, p, lo-1, hi)
			return
		}
		if err != nil || !bytes.Equal(b, m.at(i)) {
			lr.violate("C13", "get", "get_wrong_bytes", "%s: Get(%d) = %d bytes err=%v, appended were %d bytes", ctx, i, len(b), err, len(m.at(i)))
			return
		}
	}
}

func (lr *logRun) getNCheck(i, n uint64, ctx string) {
	l, m := lr.l, lr.m
	var bufs [][]byte
	var err error
	p := lr.callPanics(func() { bufs, err = l.GetN(i, n) })
	wantPanic := n == 0 || i+n-1 > m.last()
	if n == 0 {
		return // unspecified
	}
	if wantPanic {
		if p == nil {
			lr.violate("C13", "getn_bounds", "getn_beyond_last_no_panic", "%s: GetN(%d,%d) beyond last index %d did not panic", ctx, i, n, m.last())
		}
		return
	}
	if p != nil {
		lr.violate("C13", "getn_panic", "getn_panicked", "%s: GetN(%d,%d) panicked: %v (prev=%d last=%d)", ctx, i, n, p, m.prev, m.last())
		return
	}
	if i <= m.prev {
		if err != ErrNotFound {
			lr.violate("C13", "getn_notfound", "getn_removed_index", "%s: GetN(%d,%d) with prev=%d returned err=%v", ctx, i, n, m.prev, err)
		}
		return
	}
	var got, want []byte
	for _, b := range bufs {
		got = append(got, b...)
	}
	for k := i; k < i+n; k++ {
		want = append(want, m.at(k)...)
	}
	if err != nil || !bytes.Equal(got, want) {
		lr.violate("C13", "getn", "getn_wrong_bytes", "%s: GetN(%d,%d) returned %d bytes in %d buffers err=%v, the entries concatenated are %d bytes", ctx, i, n, len(got), len(bufs), err, len(want))
	}
	if len(bufs) > 1 {
		lr.reach["getn_spans_segments"]++
	}
}

func (lr *logRun) waitReaders() {
	for lr.readers > 0 {
		lr.readerQ.Wait(rt.KHarness << 24)
	}
}

func (lr *logRun) program() {
	defer func() { lr.done = true }()
	t := lr.tape
	var err error
	lr.before = lr.m.clone()
	lr.opKind = "open"
	if lr.l, err = Open(lr.dir, 0700, lr.opts()); err != nil {
		lr.violate("C13", "open", "open_failed", "Open of a fresh directory failed: %v", err)
		return
	}
	nops := 6 + t.Choose(rt.StPlan, 36)
	for k := 0; k < nops && !lr.stop; k++ {
		m := lr.m
		lr.before = m.clone()
		kind := t.Choose(rt.StPlan, 20)
		switch {
		case kind < 9: // append
			size := t.Choose(rt.StPlan, 64)
			switch t.Choose(rt.StPlan, 12) {
			case 0:
				size = 0
			case 1:
				size = lr.segSize/3 + t.Choose(rt.StPlan, lr.segSize/3)
			case 2:
				size = lr.segSize - 24 - t.Choose(rt.StPlan, 3)
			case 3:
				size = lr.segSize + t.Choose(rt.StPlan, lr.segSize)
			}
			b := lr.newEntry(size)
			lr.opKind, lr.opArg = "append", uint64(size)
			lr.ops = append(lr.ops, opRec{Kind: "append", Size: size})
			lr.pending = b
			err := lr.l.Append(b)
			lr.pending = nil
			if err == ErrExceedsSegmentSize {
				if size <= lr.segSize-24 {
					lr.violate("C13", "append", "append_rejected", "Append of %d bytes rejected with ErrExceedsSegmentSize, segment size %d", size, lr.segSize)
				}
				lr.reach["append_exceeds"]++
			} else if err != nil {
				lr.violate("C13", "append", "append_failed", "Append(%d bytes) failed: %v", size, err)
			} else {
				m.ents = append(m.ents, b)
				if size > lr.segSize-24 {
					lr.reach["append_beyond_segment_size"]++
				}
			}
		case kind < 11:
			lr.opKind = "commit"
			lr.ops = append(lr.ops, opRec{Kind: "commit"})
			if err := lr.l.Commit(); err != nil {
				lr.violate("C13", "commit", "commit_failed", "Commit failed: %v", err)
			}
			m.durable = m.last()
			lr.reach["commit"]++
		case kind < 12:
			n := m.prev + uint64(t.Choose(rt.StPlan, len(m.ents)+2))
			lr.opKind, lr.opArg = "commitn", n
			lr.ops = append(lr.ops, opRec{Kind: "commitn", A: n})
			if err := lr.l.CommitN(n); err != nil {
				lr.violate("C13", "commit", "commit_failed", "CommitN(%d) failed: %v", n, err)
			}
			if d := minU(n, m.last()); d > m.durable {
				m.durable = d
			}
		case kind < 14: // remove from the front
			lr.waitReaders()
			i := m.prev + uint64(t.Choose(rt.StPlan, len(m.ents)+3))
			lr.opKind, lr.opArg = "removelte", i
			lr.ops = append(lr.ops, opRec{Kind: "removelte", A: i})
			can := lr.l.CanLTE(i)
			if err := lr.l.RemoveLTE(i); err != nil {
				lr.violate("C13", "removelte", "removelte_failed", "RemoveLTE(%d) failed: %v", i, err)
				break
			}
			np := lr.l.PrevIndex()
			if np < m.prev || (np > m.prev && np > i) || np > m.last() || np != can {
				lr.violate("C13", "removelte", "removelte_beyond_request", "RemoveLTE(%d) moved prev from %d to %d (CanLTE said %d, last %d)", i, m.prev, np, can, m.last())
				break
			}
			if np > m.prev {
				lr.reach["front_removed"]++
				m.ents = m.ents[np-m.prev:]
				m.prev = np
			}
			m.durable = m.last() // implicit commit
		case kind < 16: // remove from the back
			lr.waitReaders()
			i := m.prev + uint64(t.Choose(rt.StPlan, len(m.ents)+3))
			if t.Chance(rt.StPlan, 1, 8) && m.prev > 0 {
				i = uint64(t.Choose(rt.StPlan, int(m.prev)+1))
			}
			lr.opKind, lr.opArg = "removegte", i
			lr.ops = append(lr.ops, opRec{Kind: "removegte", A: i})
			if err := lr.l.RemoveGTE(i); err != nil {
				lr.violate("C13", "removegte", "removegte_failed", "RemoveGTE(%d) failed: %v", i, err)
				break
			}
			switch {
			case i > m.last():
			case i > m.prev:
				m.ents = m.ents[:i-m.prev-1]
				lr.reach["back_removed"]++
			default: // everything goes, the log restarts before i
				m.ents = nil
				if i > 0 {
					m.prev = i - 1
				} else {
					m.prev = 0
				}
				lr.reach["back_removed_all"]++
			}
			m.durable = m.last()
		case kind < 17: // reset
			lr.waitReaders()
			i := uint64(t.Choose(rt.StPlan, int(m.last())+20))
			lr.opKind, lr.opArg = "reset", i
			lr.ops = append(lr.ops, opRec{Kind: "reset", A: i})
			if err := lr.l.Reset(i); err != nil {
				lr.violate("C13", "reset", "reset_failed", "Reset(%d) failed: %v", i, err)
				break
			}
			m.prev, m.ents, m.durable = i, nil, i
			lr.reach["reset"]++
		case kind < 18: // close and reopen
			lr.waitReaders()
			lr.opKind = "close"
			lr.ops = append(lr.ops, opRec{Kind: "reopen"})
			if err := lr.l.Close(); err != nil {
				lr.violate("C13", "close", "close_failed", "Close failed: %v", err)
				break
			}
			m.durable = m.last()
			lr.before = m.clone()
			lr.opKind = "open"
			nl, err := Open(lr.dir, 0700, lr.opts())
			if err != nil {
				lr.violate("C13", "reopen", "reopen_failed", "Open after Close failed: %v", err)
				break
			}
			lr.l = nl
			lr.reach["reopen"]++
		default: // a view read by another goroutine while the writer goes on
			if len(m.ents) == 0 {
				break
			}
			lo := m.prev + uint64(t.Choose(rt.StPlan, len(m.ents)))
			hi := lo + 1 + uint64(t.Choose(rt.StPlan, int(m.last()-lo)))
			lr.ops = append(lr.ops, opRec{Kind: "view", A: lo, B: hi})
			var v *Log
			if p := lr.callPanics(func() { v = lr.l.ViewAt(lo, hi) }); p != nil || v == nil {
				lr.violate("C13", "view", "view_refused", "ViewAt(%d,%d) on (%d,%d] returned %v / panicked %v", lo, hi, m.prev, m.last(), v, p)
				break
			}
			if v.PrevIndex() != lo || v.LastIndex() != hi {
				lr.violate("C13", "view", "view_bounds", "ViewAt(%d,%d) reports (%d,%d]", lo, hi, v.PrevIndex(), v.LastIndex())
				break
			}
			snap := m.clone()
			lr.readers++
			lr.reach["view"]++
			lr.sim.Spawn("reader", nil, func() {
				defer func() { lr.readers--; lr.readerQ.Wake() }()
				for pass := 0; pass < 2 && !lr.stop; pass++ {
					for i := lo + 1; i <= hi && !lr.stop; i++ {
						rt.Gosched()
						var b []byte
						var err error
						if p := lr.callPanics(func() { b, err = v.Get(i) }); p != nil {
							lr.violate("C13", "view_get_panic", "view_get_panicked", "view (%d,%d]: Get(%d) panicked: %v", lo, hi, i, p)
							return
						}
						if err != nil || !bytes.Equal(b, snap.at(i)) {
							lr.violate("C13", "view_get", "view_wrong_bytes", "view (%d,%d]: Get(%d) = %d bytes err=%v, appended were %d bytes (pass %d)", lo, hi, i, len(b), err, len(snap.at(i)), pass)
							return
						}
						if lr.m.last() > snap.last() {
							lr.reach["view_read_during_append"]++
						}
					}
				}
			})
		}
		if lr.stop {
			break
		}
		lr.before = lr.m.clone()
		lr.opKind = "idle"
		lastKind := "none"
		if len(lr.ops) > 0 {
			lastKind = lr.ops[len(lr.ops)-1].Kind
		}
		lr.checkState(fmt.Sprintf("after op %d (%s)", k, lastKind))
		if lr.stop {
			break
		}
		// reads
		m = lr.m
		if len(m.ents) > 0 {
			lo := m.prev + 1 + uint64(t.Choose(rt.StPlan, len(m.ents)))
			hi := minU(lo+uint64(t.Choose(rt.StPlan, 4)), m.last())
			lr.readCheck(lr.l, m, lo, hi, "Get")
			i := m.prev + uint64(t.Choose(rt.StPlan, len(m.ents)+1))
			n := uint64(1 + t.Choose(rt.StPlan, len(m.ents)+1))
			if i+n-1 <= m.last() || t.Chance(rt.StPlan, 1, 6) {
				lr.getNCheck(i, n, "GetN")
			}
		}
		if b, err := lr.l.Get(m.prev); m.prev > 0 && (err != ErrNotFound || b != nil) {
			lr.violate("C13", "get_removed", "get_removed_index", "Get(%d) with prev=%d returned %d bytes, err=%v", m.prev, m.prev, len(b), err)
		}
	}
	lr.waitReaders()
	if !lr.stop {
		lr.opKind = "close"
		lr.before = lr.m.clone()
		_ = lr.l.Close()
	}
}

func minU(a, b uint64) uint64 {
	if a < b {
		return a
	}
	return b
}

// ---- crash images ------------------------------------------------------------------------------------

func copyTree(src, dst string) error {
	if _, err := os.Stat(src); os.IsNotExist(err) {
		return os.MkdirAll(dst, 0700) // crash before the directory was created
	}
	return filepath.Walk(src, func(p string, info os.FileInfo, err error) error {
		if err != nil {
			return err
		}
		rel, _ := filepath.Rel(src, p)
		if info.IsDir() {
			return os.MkdirAll(filepath.Join(dst, rel), 0700)
		}
		in, err := os.Open(p)
		if err != nil {
			return err
		}
		defer in.Close()
		out, err := os.OpenFile(filepath.Join(dst, rel), os.O_WRONLY|os.O_CREATE|os.O_TRUNC, 0600)
		if err != nil {
			return err
		}
		_, err = io.Copy(out, in)
		if e := out.Close(); err == nil {
			err = e
		}
		return err
	})
}

// atBoundary runs in the writer's context right before a file operation.
func (lr *logRun) atBoundary(op string) {
	if lr.inCheck || !lr.crashMode || lr.stop || lr.before == nil {
		return
	}
	if g := lr.sim.Cur(); g == nil || g.Name != "writer" {
		return
	}
	lr.boundaries++
	lr.inCheck = true
	lr.tape.Frozen++
	defer func() { lr.inCheck = false; lr.tape.Frozen-- }()
	// process kill: every write so far is in the files
	img := filepath.Join(lr.base, fmt.Sprintf("img%d", lr.boundaries))
	if err := copyTree(lr.dir, img); err != nil {
		lr.infra = "image: " + err.Error()
		lr.stop = true
		return
	}
	lr.images++
	lr.verifyImage(img, "process-kill", op, false)
	_ = os.RemoveAll(img)
	if lr.stop {
		return
	}
	// power loss: flushed bytes plus a subset of the pages written since
	lr.tape.Frozen--
	npl := 0
	if lr.tape.Chance(rt.StDisk, 1, 3) {
		npl = 1 + lr.tape.Choose(rt.StDisk, 2)
	}
	for k := 0; k < npl && !lr.stop; k++ {
		pimg := filepath.Join(lr.base, fmt.Sprintf("pl%d-%d", lr.boundaries, k))
		lr.buildPowerLossImage(pimg)
		lr.tape.Frozen++
		lr.plImages++
		lr.verifyImage(pimg, "power-loss", op, true)
		lr.tape.Frozen--
		_ = os.RemoveAll(pimg)
	}
	lr.tape.Frozen++
}

const page = 4096

func (lr *logRun) buildPowerLossImage(dst string) {
	_ = os.MkdirAll(dst, 0700)
	ents, _ := os.ReadDir(lr.dir)
	for _, e := range ents {
		if e.IsDir() {
			continue
		}
		p := filepath.Join(lr.dir, e.Name())
		cur, err := os.ReadFile(p)
		if err != nil {
			continue
		}
		dur, ok := lr.durableBytes[p]
		if !ok {
			// created and never flushed: its directory entry and size are taken as durable, its bytes are not
			dur = make([]byte, len(cur))
		}
		out := make([]byte, len(cur))
		copy(out, dur)
		for off := 0; off < len(cur); off += page {
			end := off + page
			if end > len(cur) {
				end = len(cur)
			}
			var d []byte
			if off < len(dur) {
				de := end
				if de > len(dur) {
					de = len(dur)
				}
				d = dur[off:de]
			}
			if !bytes.Equal(cur[off:end], d) || len(d) != end-off {
				if lr.tape.Chance(rt.StDisk, 1, 2) {
					copy(out[off:end], cur[off:end])
				}
			}
		}
		_ = os.WriteFile(filepath.Join(dst, e.Name()), out, 0600)
	}
}

// verifyImage opens a crash image with the real Open and compares it with the model.
func (lr *logRun) verifyImage(img, kind, op string, powerLoss bool) {
	ctx := fmt.Sprintf("%s image taken before %q during %s(%d) after ops %s", kind, op, lr.opKind, lr.opArg, lr.opsTail())
	var l *Log
	var err error
	if p := lr.callPanics(func() { l, err = Open(img, 0700, lr.opts()) }); p != nil {
		lr.violate("C14", "open_panics", "crash_open_panics:"+kind, "%s: Open panicked: %v", ctx, p)
		return
	}
	if err != nil {
		lr.violate("C14", "open_fails", "crash_open_fails:"+kind, "%s: Open fails: %v\n%s", ctx, err, lsDir(img))
		return
	}
	defer l.Close()
	b, a := lr.before, lr.m // before the operation in progress / what it has done to the model so far
	prev, last := l.PrevIndex(), l.LastIndex()
	// every exposed entry is intact: exactly the bytes appended at that index (before or by the op in progress)
	for i := prev + 1; i <= last; i++ {
		var got []byte
		var gerr error
		if p := lr.callPanics(func() { got, gerr = l.Get(i) }); p != nil || gerr != nil {
			lr.violate("C14", "entry_unreadable", "crash_entry_unreadable:"+kind, "%s: entry %d of recovered (%d,%d] unreadable: %v %v", ctx, i, prev, last, p, gerr)
			return
		}
		wb, wa := b.at(i), a.at(i)
		if lr.opKind == "append" && lr.pending != nil && i == b.last()+1 {
			wa = lr.pending // the append in progress may already be visible, then with its own bytes
		}
		okB := wb != nil && bytes.Equal(got, wb) || (wb != nil && len(wb) == 0 && len(got) == 0)
		okA := wa != nil && bytes.Equal(got, wa) || (wa != nil && len(wa) == 0 && len(got) == 0)
		if wb == nil && wa == nil {
			lr.violate("C14", "phantom_entry", "crash_phantom_entry:"+kind, "%s: recovered log (%d,%d] holds index %d, never appended (sequence was (%d,%d])", ctx, prev, last, i, b.prev, b.last())
			return
		}
		if !okB && !okA {
			lr.violate("C14", "entry_corrupt", "crash_entry_corrupt:"+kind, "%s: entry %d of recovered (%d,%d] has %d bytes that were never appended at that index", ctx, i, prev, last, len(got))
			return
		}
	}
	inReset := lr.opKind == "reset"
	// nothing a completed back-removal removed: the recovered log never extends beyond what exists now
	hi := b.last()
	if lr.opKind == "append" && a.last() > hi {
		hi = a.last()
	}
	if lr.opKind == "append" && hi == b.last() {
		hi = b.last() + 1 // the append in progress may already be visible
	}
	if last > hi && !inReset {
		lr.violate("C14", "resurrected", "crash_resurrected_entries:"+kind, "%s: recovered log ends at %d, the sequence at %d", ctx, last, hi)
		return
	}
	// everything covered by the last completed commit and not removed since is there
	if !inReset {
		need := b.durable
		switch lr.opKind {
		case "removegte":
			if lr.opArg <= need {
				if lr.opArg == 0 {
					need = 0
				} else {
					need = lr.opArg - 1 // the removal in progress may already have happened
				}
			}
		}
		if need > b.prev && last < need {
			lr.violate("C14", "committed_lost", "crash_committed_entries_lost:"+kind, "%s: recovered log is (%d,%d] but entries up to %d were covered by a completed commit", ctx, prev, last, need)
			return
		}
		// the front: only whole completed or in-progress front removals move it
		maxPrev := b.prev
		if lr.opKind == "removelte" {
			maxPrev = minU(lr.opArg, b.last())
			if maxPrev < b.prev {
				maxPrev = b.prev
			}
		}
		if lr.opKind == "removegte" && lr.opArg <= b.prev {
			// the log restarts before its old start
		} else if prev > maxPrev && last > prev {
			lr.violate("C14", "front_lost", "crash_front_entries_lost:"+kind, "%s: recovered log starts after %d, the sequence after %d", ctx, prev, b.prev)
			return
		} else if need > b.prev && prev > maxPrev {
			lr.violate("C14", "front_lost", "crash_front_entries_lost:"+kind, "%s: recovered log is (%d,%d], the sequence starts after %d with entries committed up to %d", ctx, prev, last, b.prev, need)
			return
		}
	}
}

func (lr *logRun) opsTail() string {
	n := len(lr.ops)
	lo := n - 6
	if lo < 0 {
		lo = 0
	}
	b, _ := json.Marshal(lr.ops[lo:])
	return string(b)
}

func lsDir(dir string) string {
	out := ""
	ents, _ := os.ReadDir(dir)
	for _, e := range ents {
		if fi, err := e.Info(); err == nil {
			out += fmt.Sprintf("    %s %d\n", e.Name(), fi.Size())
		}
	}
	return out
}

// ---- run -----------------------------------------------------------------------------------------------

func runOne(seed uint64, prof string, tape *rt.Tape, jb *job) (res runResult, lr *logRun) {
	lr = &logRun{seed: seed, prof: prof, tape: tape, reach: map[string]int{}, m: &model{}, durableBytes: map[string][]byte{}, mapped: map[uintptr]string{}}
	lr.crashMode = prof == "logcrash"
	lr.segSize = []int{1024, 2048, 4096, 1024 + 8*tape.Choose(rt.StConfig, 64)}[tape.Choose(rt.StConfig, 4)]
	lr.sim = rt.NewSim(tape, synctest.Wait)
	lr.sim.ContNum, lr.sim.ContDen = 1+tape.Choose(rt.StConfig, 8), 2+8
	lr.sim.StepCost = 1000
	lr.base = filepath.Join("/dev/shm", fmt.Sprintf("verif-log-%d", os.Getpid()), fmt.Sprintf("r%x", seed))
	_ = os.RemoveAll(lr.base)
	lr.dir = filepath.Join(lr.base, "log")
	if err := os.MkdirAll(lr.base, 0700); err != nil {
		lr.infra = err.Error()
	}
	simos.Hook = func(op, path string) error { lr.atBoundary(op); return nil }
	simunix.Hook = func(op string, b []byte) error { lr.atBoundary(op); return nil }
	simos.After = func(op, path string) {
		if op == "remove" {
			delete(lr.durableBytes, path) // a later file of that name is a new file
			return
		}
		if b, err := os.ReadFile(path); err == nil {
			lr.durableBytes[path] = b
		}
	}
	simunix.After = func(op string, b []byte, fd int) {
		if len(b) == 0 {
			return
		}
		key := uintptr(unsafe.Pointer(&b[0]))
		switch op {
		case "mmap":
			if p, err := os.Readlink(fmt.Sprintf("/proc/self/fd/%d", fd)); err == nil {
				lr.mapped[key] = p
			}
		case "msync":
			if p, ok := lr.mapped[key]; ok {
				lr.durableBytes[p] = append([]byte(nil), b...)
			}
		case "munmap":
			delete(lr.mapped, key)
		}
	}
	rt.Install(lr.sim)
	if lr.infra == "" {
		lr.sim.Spawn("writer", nil, lr.program)
		for !lr.stop {
			r := lr.sim.Step()
			if r == rt.StepInfra {
				lr.infra = lr.sim.InfraErr()
				break
			}
			if len(lr.sim.Panics) > 0 {
				p := lr.sim.Panics[0]
				lr.violate("C13", "panic", "panic:"+firstLine(fmt.Sprint(p.Value)), "goroutine %v panicked: %v\n%s", p.G, p.Value, p.Stack)
				break
			}
			if lr.done && len(lr.sim.Live()) == 0 {
				break
			}
			if r == rt.StepIdle {
				if len(lr.sim.Live()) > 0 {
					lr.infra = "logsim stuck:\n" + lr.sim.Describe()
				}
				break
			}
		}
	}
	rt.Uninstall()
	simos.Hook, simunix.Hook, simos.After, simunix.After = nil, nil, nil, nil
	simunix.ReleaseAll()
	phase := "done"
	if lr.viol != nil || lr.infra != "" || !lr.done {
		phase = "aborted"
	}
	res = runResult{Seed: seed, Profile: prof, Steps: lr.sim.Steps, SimNS: lr.sim.Now, Hash: fmt.Sprintf("%016x", lr.sim.Hash), Violation: lr.viol, Infra: lr.infra, Phase: phase,
		Faults: map[string]int{"process_kill_image": lr.images, "power_loss_image": lr.plImages}, Reach: lr.reach,
		Counters: map[string]uint64{"ops": uint64(len(lr.ops)), "io_boundaries": uint64(lr.boundaries), "entries": lr.entSeq}}
	res.Config = map[string]interface{}{"segment_size": lr.segSize, "crash": lr.crashMode}
	segs := 0
	if ents, err := os.ReadDir(lr.dir); err == nil {
		segs = len(ents)
	}
	multi := lr.reach["getn_spans_segments"] > 0 || segs >= 2 || lr.reach["front_removed"] > 0
	res.Nontrivial = map[string]bool{
		"C13": multi && (lr.reach["front_removed"]+lr.reach["back_removed"]+lr.reach["back_removed_all"] > 0) && lr.reach["view_read_during_append"] > 0,
		"C14": lr.crashMode && lr.reach["commit"] > 0 && lr.images >= 10,
	}
	res.Digests = lr.boundaries
	opsShown := lr.ops
	if len(opsShown) > 40 {
		opsShown = opsShown[:40]
	}
	res.Sample = map[string]interface{}{"seed": seed, "segment_size": lr.segSize, "program": opsShown, "io_boundaries": lr.boundaries, "process_kill_images": lr.images, "power_loss_images": lr.plImages, "reach": lr.reach}
	_ = os.RemoveAll(lr.base)
	_ = os.Remove(filepath.Dir(lr.base)) // the per-process directory, once it is empty
	return
}

func firstLine(s string) string {
	if i := strings.IndexByte(s, '\n'); i >= 0 {
		s = s[:i]
	}
	if len(s) > 120 {
		s = s[:120]
	}
	return s
}

func writeReplay(jb *job, res *runResult, lr *logRun, tape *rt.Tape) string {
	if jb.ReplayDir == "" || res.Violation == nil {
		return ""
	}
	_ = os.MkdirAll(jb.ReplayDir, 0755)
	rf := replayFile{Property: res.Violation.Prop, Oracle: res.Violation.Oracle, Signature: res.Violation.Sig, Message: res.Violation.Msg, Step: res.Violation.Step,
		Seed: res.Seed, Profile: res.Profile, Engine: "log", Config: res.Config, Tape: tape.Out, Hash: res.Hash}
	for _, e := range lr.sim.Tail(40) {
		rf.Tail = append(rf.Tail, fmt.Sprintf("%d %c %d %s", e.Step, e.Kind, e.ID, e.Name))
	}
	path := fmt.Sprintf("%s/%s-%d.json", jb.ReplayDir, rf.Property, res.Seed)
	b, _ := json.Marshal(rf)
	_ = os.WriteFile(path, b, 0644)
	return path
}

func TestSimWorker(t *testing.T) {
	path := os.Getenv("VERIF_JOB")
	if path == "" {
		t.Skip("VERIF_JOB not set")
	}
	b, err := os.ReadFile(path)
	if err != nil {
		t.Fatal(err)
	}
	var jb job
	if err := json.Unmarshal(b, &jb); err != nil {
		t.Fatal(err)
	}
	out := os.Stdout
	if jb.Out != "" {
		if out, err = os.OpenFile(jb.Out, os.O_WRONLY|os.O_CREATE|os.O_APPEND, 0644); err != nil {
			t.Fatal(err)
		}
		defer out.Close()
	}
	emit := func(v interface{}) {
		b, _ := json.Marshal(v)
		out.Write(append(b, '\n'))
	}
	one := func(seed uint64, prof string, tape *rt.Tape) (res runResult, lr *logRun) {
		defer func() {
			if v := recover(); v != nil && res.Seed == 0 {
				res = runResult{Seed: seed, Infra: fmt.Sprint("bubble: ", v)}
			}
		}()
		synctest.Test(t, func(t *testing.T) { res, lr = runOne(seed, prof, tape, &jb) })
		return
	}
	if jb.Replay != "" {
		rb, err := os.ReadFile(jb.Replay)
		if err != nil {
			t.Fatal(err)
		}
		var rf replayFile
		if err := json.Unmarshal(rb, &rf); err != nil {
			t.Fatal(err)
		}
		tape := rt.NewReplayTape(rf.Seed, rf.Tape)
		res, lr := one(rf.Seed, rf.Profile, tape)
		if res.Violation != nil && lr != nil {
			res.ReplayAt = writeReplay(&jb, &res, lr, tape)
		}
		emit(res)
		return
	}
	deadline := time.Time{}
	if jb.MaxWallS > 0 {
		deadline = time.Now().Add(time.Duration(jb.MaxWallS) * time.Second)
	}
	for k := jb.From; k < jb.From+jb.Count; k++ {
		if !deadline.IsZero() && time.Now().After(deadline) {
			break
		}
		seed := rt.SplitMix(jb.BaseSeed, k)
		emit(map[string]interface{}{"starting": seed, "k": k})
		tape := rt.NewTape(seed)
		w0 := time.Now()
		res, lr := one(seed, jb.Profile, tape)
		res.WallMS = time.Since(w0).Milliseconds()
		res.K = k
		if res.Violation != nil && lr != nil {
			res.ReplayAt = writeReplay(&jb, &res, lr, tape)
		}
		emit(res)
		if res.Violation != nil || res.Infra != "" || res.Phase != "done" {
			return
		}
	}
}

var _ = sort.Strings
