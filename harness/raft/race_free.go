//go:build verif && race && go1.20

package raft

import (
	"context"
	"encoding/json"
	"errors"
	"fmt"
	"io"
	"math/rand"
	"net"
	"os"
	"path/filepath"
	"sync"
	"testing"
	"testing/synctest"
	"time"
)

// Race probe (C15, data-race clause). Only in the -race build.
//
// The deterministic scheduler serialises goroutines and thereby hands the race
// detector a happens-before edge between everything (synctest.Wait publishes
// one), which blinds it. This probe therefore runs the same instrumented build
// with the simulator in pass-through mode: real goroutines, real channel
// operations and locks, the fake clock of the synctest bubble, an in-memory
// network of net.Pipe connections and real files on tmpfs. Its only oracles are
// the race detector (GORACE=halt_on_error, exit code 66), fatal runtime errors
// (concurrent map access) and panics. Interleavings are whatever the Go
// scheduler produces: a report names the two access sites and cannot be
// replayed step by step (DESIGN 9 and 12.13).

type raceNet struct {
	mu        sync.Mutex
	listeners map[string]*raceListener
	blocked   map[[2]uint64]bool
	conns     map[[2]uint64][]net.Conn
}

type raceListener struct {
	addr   string
	nid    uint64
	ch     chan net.Conn
	closed chan struct{}
	once   sync.Once
}

var errRaceClosed = errors.New("racenet: closed")

func (l *raceListener) Accept() (net.Conn, error) {
	select {
	case c := <-l.ch:
		return c, nil
	case <-l.closed:
		return nil, errRaceClosed
	}
}
func (l *raceListener) Close() error   { l.once.Do(func() { close(l.closed) }); return nil }
func (l *raceListener) Addr() net.Addr { return raceAddr(l.addr) }

type raceAddr string

func (a raceAddr) Network() string { return "tcp" }
func (a raceAddr) String() string  { return string(a) }

func (n *raceNet) listen(nid uint64, addr string) *raceListener {
	l := &raceListener{addr: addr, nid: nid, ch: make(chan net.Conn), closed: make(chan struct{})}
	n.mu.Lock()
	n.listeners[addr] = l
	n.mu.Unlock()
	return l
}

func (n *raceNet) dialer(from uint64) dialFn {
	return func(network, addr string, timeout time.Duration) (net.Conn, error) {
		n.mu.Lock()
		l := n.listeners[addr]
		var to uint64
		if l != nil {
			to = l.nid
		}
		cut := n.blocked[[2]uint64{from, to}] || n.blocked[[2]uint64{to, from}]
		n.mu.Unlock()
		if l == nil || cut {
			return nil, errors.New("racenet: connection refused")
		}
		if timeout <= 0 {
			timeout = time.Second
		}
		c1, c2 := net.Pipe()
		t := time.NewTimer(timeout)
		defer t.Stop()
		select {
		case l.ch <- c2:
			n.mu.Lock()
			n.conns[[2]uint64{from, to}] = append(n.conns[[2]uint64{from, to}], c1, c2)
			n.mu.Unlock()
			return c1, nil
		case <-l.closed:
			return nil, errors.New("racenet: connection refused")
		case <-t.C:
			return nil, errors.New("racenet: dial timeout")
		}
	}
}

func (n *raceNet) cut(a, b uint64, on bool) {
	n.mu.Lock()
	n.blocked[[2]uint64{a, b}] = on
	var cs []net.Conn
	if on {
		cs = append(cs, n.conns[[2]uint64{a, b}]...)
		cs = append(cs, n.conns[[2]uint64{b, a}]...)
		delete(n.conns, [2]uint64{a, b})
		delete(n.conns, [2]uint64{b, a})
	}
	n.mu.Unlock()
	for _, c := range cs {
		_ = c.Close()
	}
}

type raceFSM struct{ cmds []uint64 }

func (f *raceFSM) Update(cmd []byte) interface{} {
	f.cmds = append(f.cmds, decodeCmd(cmd))
	return uint64(len(f.cmds))
}
func (f *raceFSM) Read(cmd interface{}) interface{} { return uint64(len(f.cmds)) }
func (f *raceFSM) Snapshot() (FSMState, error) {
	return &raceState{append([]uint64(nil), f.cmds...)}, nil
}
func (f *raceFSM) Restore(r io.Reader) error {
	var cmds []uint64
	var b [8]byte
	for {
		if _, err := io.ReadFull(r, b[:]); err != nil {
			break
		}
		cmds = append(cmds, byteOrder.Uint64(b[:]))
	}
	f.cmds = cmds
	return nil
}

type raceState struct{ cmds []uint64 }

func (s *raceState) Persist(w io.Writer) error {
	for _, c := range s.cmds {
		var b [8]byte
		byteOrder.PutUint64(b[:], c)
		if _, err := w.Write(b[:]); err != nil {
			return err
		}
	}
	return nil
}
func (s *raceState) Release() {}

type raceNode struct {
	id   uint64
	dir  string
	mu   sync.Mutex
	r    *Raft
	done chan struct{}
}

type raceRun struct {
	rng   *rand.Rand
	rmu   sync.Mutex
	net   *raceNet
	nodes []*raceNode
	opt   Options
	stop  chan struct{}
	wg    sync.WaitGroup
	stats map[string]int
	smu   sync.Mutex
}

func (rr *raceRun) intn(n int) int {
	rr.rmu.Lock()
	defer rr.rmu.Unlock()
	return rr.rng.Intn(n)
}
func (rr *raceRun) count(k string) { rr.smu.Lock(); rr.stats[k]++; rr.smu.Unlock() }

func (rr *raceRun) start(n *raceNode) error {
	r, err := New(rr.opt, &raceFSM{}, n.dir)
	if err != nil {
		return err
	}
	r.dialFn = rr.net.dialer(n.id)
	l := rr.net.listen(n.id, nodeAddr(n.id))
	done := make(chan struct{})
	n.mu.Lock()
	n.r, n.done = r, done
	n.mu.Unlock()
	go func() {
		_ = r.Serve(l)
		close(done)
	}()
	return nil
}

func (n *raceNode) get() *Raft { n.mu.Lock(); defer n.mu.Unlock(); return n.r }

func (rr *raceRun) submit(r *Raft, t Task) bool {
	select {
	case <-r.Closed():
		return false
	case r.Tasks() <- t:
	case <-rr.stop:
		return false
	}
	select {
	case <-t.Done():
		return true
	case <-time.After(20 * rr.opt.HeartbeatTimeout):
		return false
	}
}

func (rr *raceRun) submitFSM(r *Raft, t FSMTask) {
	select {
	case <-r.Closed():
		return
	case r.FSMTasks() <- t:
	case <-rr.stop:
		return
	}
	select {
	case <-t.Done():
	case <-time.After(20 * rr.opt.HeartbeatTimeout):
	}
}

func (rr *raceRun) leader() *Raft {
	for _, n := range rr.nodes {
		r := n.get()
		if r == nil {
			continue
		}
		t := GetInfo()
		if rr.submit(r, t) {
			if info, ok := t.Result().(Info); ok && info.State == Leader {
				return r
			}
		}
	}
	return nil
}

func runRaceOne(seed uint64) (stats map[string]int, err error) {
	rr := &raceRun{rng: rand.New(rand.NewSource(int64(seed))), stop: make(chan struct{}), stats: map[string]int{}}
	rr.net = &raceNet{listeners: map[string]*raceListener{}, blocked: map[[2]uint64]bool{}, conns: map[[2]uint64][]net.Conn{}}
	hb := []time.Duration{50 * time.Millisecond, 200 * time.Millisecond}[rr.rng.Intn(2)]
	rr.opt = Options{HeartbeatTimeout: hb, PromoteThreshold: hb, SnapshotInterval: []time.Duration{0, 5 * hb}[rr.rng.Intn(2)], SnapshotThreshold: uint64(1 + rr.rng.Intn(10)),
		ShutdownOnRemove: true, Bandwidth: 256 * 1024, LogSegmentSize: []int{1024, 2048, 4096}[rr.rng.Intn(3)], SnapshotsRetain: 1 + rr.rng.Intn(2)}
	base := filepath.Join("/dev/shm", fmt.Sprintf("verif-race-%d", os.Getpid()), fmt.Sprintf("r%x", seed))
	_ = os.RemoveAll(base)
	defer func() { _ = os.RemoveAll(base); _ = os.Remove(filepath.Dir(base)) }()
	nvoters := 2 + rr.rng.Intn(3)
	total := nvoters + rr.rng.Intn(3)
	conf := Config{Nodes: map[uint64]Node{}, Index: 1, Term: 1}
	for i := 1; i <= nvoters; i++ {
		conf.Nodes[uint64(i)] = Node{ID: uint64(i), Addr: nodeAddr(uint64(i)), Voter: true}
	}
	for i := 1; i <= total; i++ {
		n := &raceNode{id: uint64(i), dir: filepath.Join(base, fmt.Sprintf("n%d", i))}
		if err := os.MkdirAll(n.dir, 0700); err != nil {
			return nil, err
		}
		if err := SetIdentity(n.dir, simCID, n.id); err != nil {
			return nil, err
		}
		if i <= nvoters {
			st, err := openStorage(n.dir, rr.opt)
			if err == nil {
				err = st.bootstrap(conf.clone())
			}
			if err == nil {
				err = st.log.Close()
			}
			if err != nil {
				return nil, err
			}
		}
		rr.nodes = append(rr.nodes, n)
		if err := rr.start(n); err != nil {
			return nil, err
		}
	}
	// clients
	var cmd uint64
	var cmu sync.Mutex
	for c := 0; c < 3; c++ {
		rr.wg.Add(1)
		go func() {
			defer rr.wg.Done()
			for {
				select {
				case <-rr.stop:
					return
				case <-time.After(hb / time.Duration(2+rr.intn(8))):
				}
				r := rr.nodes[rr.intn(len(rr.nodes))].get()
				if r == nil {
					continue
				}
				switch rr.intn(6) {
				case 0:
					rr.submitFSM(r, ReadFSM(readCmd{}))
				case 1:
					rr.submitFSM(r, DirtyReadFSM(readCmd{}))
				case 2:
					rr.submitFSM(r, BarrierFSM())
				default:
					cmu.Lock()
					cmd++
					id := cmd
					cmu.Unlock()
					rr.submitFSM(r, UpdateFSM(encodeCmd(id, rr.intn(200))))
					rr.count("updates")
				}
			}
		}()
	}
	// admin
	rr.wg.Add(1)
	go func() {
		defer rr.wg.Done()
		rounds := 150 + rr.intn(150)
		for k := 0; k < rounds; k++ {
			select {
			case <-time.After(hb / 2):
			case <-rr.stop:
				return
			}
			n := rr.nodes[rr.intn(len(rr.nodes))]
			r := n.get()
			switch rr.intn(12) {
			case 0, 1:
				if r != nil {
					rr.submit(r, TakeSnapshot(uint64(rr.intn(3))))
					rr.count("snapshot")
				}
			case 2:
				if l := rr.leader(); l != nil {
					rr.submit(l, TransferLeadership(0, 2*hb))
					rr.count("transfer")
				}
			case 3, 4:
				if l := rr.leader(); l != nil {
					t := GetInfo()
					if rr.submit(l, t) {
						if info, ok := t.Result().(Info); ok {
							c := info.Configs.Latest
							id := uint64(1 + rr.intn(len(rr.nodes)))
							if nd, ok := c.Nodes[id]; !ok {
								_ = c.AddNonvoter(id, nodeAddr(id), rr.intn(2) == 0)
							} else if nd.Voter {
								if c.numVoters() > 2 {
									_ = c.SetAction(id, []Action{Demote, Remove}[rr.intn(2)])
								}
							} else {
								_ = c.SetAction(id, []Action{Promote, Remove}[rr.intn(2)])
							}
							rr.submit(l, ChangeConfig(c))
							rr.count("member")
						}
					}
				}
			case 5:
				a, b := uint64(1+rr.intn(len(rr.nodes))), uint64(1+rr.intn(len(rr.nodes)))
				if a != b {
					rr.net.cut(a, b, true)
					rr.count("cut")
					go func() {
						select {
						case <-time.After(time.Duration(1+rr.intn(6)) * hb):
						case <-rr.stop:
						}
						rr.net.cut(a, b, false)
					}()
				}
			case 6:
				// graceful restart
				if r != nil {
					n.mu.Lock()
					done := n.done
					n.mu.Unlock()
					_ = r.Shutdown(context.Background())
					<-done
					_ = rr.start(n)
					rr.count("restart")
				}
			case 7:
				if r != nil {
					rr.submit(r, GetInfo())
				}
			}
		}
	}()
	// run for a bounded stretch of (fake) time, then stop everything
	time.Sleep(time.Duration(120+rr.intn(120)) * hb)
	close(rr.stop)
	rr.wg.Wait()
	for _, n := range rr.nodes {
		if r := n.get(); r != nil {
			n.mu.Lock()
			done := n.done
			n.mu.Unlock()
			_ = r.Shutdown(context.Background())
			<-done
		}
	}
	return rr.stats, nil
}

// TestRaceWorker runs seeds from VERIF_JOB in the free-running mode.
func TestRaceWorker(t *testing.T) {
	path := os.Getenv("VERIF_JOB")
	if path == "" {
		t.Skip("VERIF_JOB not set")
	}
	b, err := os.ReadFile(path)
	if err != nil {
		t.Fatal(err)
	}
	var jb job
	if err := json.Unmarshal(b, &jb); err != nil {
		t.Fatal(err)
	}
	out, err := os.OpenFile(jb.Out, os.O_WRONLY|os.O_CREATE|os.O_APPEND, 0644)
	if err != nil {
		t.Fatal(err)
	}
	defer out.Close()
	emit := func(v interface{}) {
		b, _ := json.Marshal(v)
		out.Write(append(b, '\n'))
	}
	deadline := time.Now().Add(time.Duration(jb.MaxWallS) * time.Second)
	for k := jb.From; k < jb.From+jb.Count; k++ {
		if jb.MaxWallS > 0 && time.Now().After(deadline) {
			break
		}
		seed := jb.BaseSeed*1000003 + k
		emit(map[string]interface{}{"starting": seed, "k": k})
		var stats map[string]int
		var rerr error
		w0 := time.Now()
		synctest.Test(t, func(t *testing.T) { stats, rerr = runRaceOne(seed) })
		res := runResult{Seed: seed, K: k, Profile: "racefree", Phase: "done", Faults: stats, WallMS: time.Since(w0).Milliseconds(), Hash: fmt.Sprintf("%016x", seed)}
		if rerr != nil {
			res.Infra = rerr.Error()
		}
		emit(res)
	}
}
