//go:build verif && go1.20

package raft

import (
	"bufio"
	"encoding/binary"
	"errors"
	"fmt"
	"hash/fnv"
	"io"
	"os"
	"path/filepath"
	"strings"
	"time"

	"verif.local/sim/rt"
	"verif.local/sim/simnet"
	"verif.local/sim/simtime"
	"verif.local/sim/simunix"
)

// ---- client operation records -------------------------------------------------------

type opKind int

const (
	opUpdate opKind = iota
	opRead
	opDirty
	opBarrier
)

func (k opKind) String() string { return [...]string{"update", "read", "dirty", "barrier"}[k] }

type outcome int

const (
	outPending outcome = iota
	outOK
	outDefinite     // definitely did not take effect
	outAmbiguous    // may or may not have taken effect
	outUnknown      // client gave up waiting
	outNotSubmitted // node was closed before the task could be handed over
)

func (o outcome) String() string {
	return [...]string{"pending", "ok", "definite", "ambiguous", "unknown", "not_submitted"}[o]
}

type opRec struct {
	Kind      opKind
	Client    int
	Node      uint64
	Cmd       uint64
	Invoke    uint64
	Return    uint64
	Outcome   outcome
	Err       string
	Pos       uint64 // update: position reported; read: length
	Hash      uint64
	inc       *nodeInc
	task      FSMTask
	submitted bool
	// state of the target when the op returned / was invoked (for read lower bounds)
	okBefore uint64 // number of updates already completed OK on this incarnation at invoke
}

type taskRec struct {
	task        Task
	kind        string
	submittedAt uint64
	result      interface{}
	doneSeen    bool
}

func encodeCmd(id uint64, pad int) []byte {
	b := make([]byte, 8+pad)
	binary.LittleEndian.PutUint64(b, id)
	for i := 8; i < len(b); i++ {
		b[i] = byte(id + uint64(i))
	}
	return b
}

func decodeCmd(b []byte) uint64 {
	if len(b) < 8 {
		return 0
	}
	return binary.LittleEndian.Uint64(b)
}

// ---- recording state machine ---------------------------------------------------------------

type recFSM struct {
	inc      *nodeInc
	cmds     []uint64
	hash     uint64
	restores int
}

func mixHash(h, v uint64) uint64 {
	h ^= v + 0x9e3779b97f4a7c15 + (h << 6) + (h >> 2)
	return h
}

func (f *recFSM) slow() {
	run := f.inc.run
	if run.cfg.SlowFSM > 0 && !f.inc.dead && run.phase == "chaos" && run.tape.Chance(rt.StMisc, run.cfg.SlowFSM, 1000) {
		d := time.Duration(1+run.tape.Choose(rt.StMisc, 8)) * run.cfg.HB / 8
		if run.tape.Chance(rt.StMisc, 1, 6) {
			// now and then the state machine is stuck for several election timeouts
			// (a long compaction of its own, a slow disk): everything else moves on meanwhile
			d = time.Duration(2+run.tape.Choose(rt.StMisc, 6)) * run.cfg.HB
		}
		simtime.Sleep(d)
	}
}

func (f *recFSM) Update(cmd []byte) interface{} {
	f.slow()
	id := decodeCmd(cmd)
	f.cmds = append(f.cmds, id)
	f.hash = mixHash(f.hash, id)
	if !f.inc.dead {
		f.inc.run.led.onApply(f, id)
	}
	return uint64(len(f.cmds))
}

func (f *recFSM) Read(cmd interface{}) interface{} {
	f.slow()
	return readResult{uint64(len(f.cmds)), f.hash}
}

type recState struct {
	index, term uint64
	cmds        []uint64
	fsm         *recFSM
}

func (f *recFSM) Snapshot() (FSMState, error) {
	st := &recState{cmds: append([]uint64(nil), f.cmds...), fsm: f}
	// the applied index at capture time is what the snapshot must be labelled with
	if r := f.inc.r; r != nil {
		st.index, st.term = r.fsm.index, r.fsm.term
	}
	return st, nil
}

const snapMagic = 0x53494d534e4150

func (s *recState) Persist(w io.Writer) error {
	s.fsm.slow()
	bw := bufio.NewWriter(w)
	hdr := []uint64{snapMagic, s.index, s.term, uint64(len(s.cmds))}
	for _, v := range append(hdr, s.cmds...) {
		var b [8]byte
		binary.LittleEndian.PutUint64(b[:], v)
		if _, err := bw.Write(b[:]); err != nil {
			return err
		}
	}
	return bw.Flush()
}

func (s *recState) Release() {}

func readSnapPayload(r io.Reader) (index, term uint64, cmds []uint64, err error) {
	var hdr [4]uint64
	var b [8]byte
	for i := range hdr {
		if _, err = io.ReadFull(r, b[:]); err != nil {
			return
		}
		hdr[i] = binary.LittleEndian.Uint64(b[:])
	}
	if hdr[0] != snapMagic {
		err = errors.New("bad snapshot magic")
		return
	}
	index, term = hdr[1], hdr[2]
	for i := uint64(0); i < hdr[3]; i++ {
		if _, err = io.ReadFull(r, b[:]); err != nil {
			return
		}
		cmds = append(cmds, binary.LittleEndian.Uint64(b[:]))
	}
	return
}

func (f *recFSM) Restore(r io.Reader) error {
	f.slow()
	index, term, cmds, err := readSnapPayload(r)
	if err != nil {
		if !f.inc.dead {
			f.inc.run.violate("C09", "snapshot_unreadable", "restore:unreadable", "%v: snapshot handed to Restore is unreadable: %v", f.inc, err)
		}
		return err
	}
	f.cmds = cmds
	f.hash = 0
	for _, id := range cmds {
		f.hash = mixHash(f.hash, id)
	}
	f.restores++
	if !f.inc.dead {
		f.inc.run.led.onRestore(f, index, term)
	}
	return nil
}

// ---- ledgers -------------------------------------------------------------------------------

type entKey struct{ index, term uint64 }

type entRec struct {
	typ       entryType
	hash      uint64
	size      int
	cmd       uint64 // update entries: command id
	prevTerm  uint64 // term at index-1 where first seen (0 if unknown)
	prevKnown bool
	firstSeen uint64
	firstBy   uint64
	config    *Config
}

type incObs struct {
	started    bool
	term       uint64
	votedFor   uint64
	commit     uint64
	prev, last uint64
	lastTerm   uint64
	terms      map[uint64]uint64 // shadow of the log: index -> term
	snapIndex  uint64
	snapTerm   uint64
	leaderTerm uint64 // term in which this incarnation was last seen as leader
	leaderLast uint64
	applied    uint64
	state      State

	termAtStart         uint64
	lastTimeoutNow      int64
	transferPermit      bool // became candidate on a timeout-now request and has been candidate since
	lastConfigChange    int64
	lastElectionTimeout int64
	heardLeader         uint64
	heardTerm           uint64
	heardAt             int64
	voteTermBefore      uint64
	xferPending         *transferRec2
	xferTask            *task
	xfer                *transferRec2
	cfgCheckedAt        uint64
	cfgCheckedPrev      uint64
	cfgCheckedSnap      uint64
	tvTerm, tvVote      uint64
	leaderClearedAt     int64
	followerTimeoutAt   int64
}

type ledgers struct {
	run           *simRun
	leaderOf      map[uint64]uint64 // term -> node
	entries       map[entKey]*entRec
	committed     map[uint64]uint64 // index -> term
	commitBy      map[uint64]string
	commitIn      map[uint64]uint64 // index -> lowest term of a node at the moment it was seen to have committed the index
	commitHash    map[uint64]uint64 // index -> payload hash of the entry as held by the node that committed it
	upto          uint64            // committed prefix known contiguously
	G             []uint64          // committed update commands in index order (up to upto)
	Gidx          []uint64
	cmdAt         map[uint64][]entKey // command id -> ledger entries carrying it
	everVoter     map[uint64]bool
	okUpdates     map[uint64]*opRec
	elections     int
	candidates    map[uint64]int
	appliedBy     map[uint64]int
	leaderChanges int
	lastLeader    uint64

	cfgIdx    []uint64 // indices of committed configuration entries, ascending
	cfgAt     map[uint64]*Config
	snapsSeen map[string]bool

	x ledgers2

	probeOp   *opRec
	probeDone bool
	settled   bool
}

func (l *ledgers) init(run *simRun) {
	l.run = run
	l.leaderOf = map[uint64]uint64{}
	l.entries = map[entKey]*entRec{}
	l.committed = map[uint64]uint64{}
	l.commitBy = map[uint64]string{}
	l.commitHash = map[uint64]uint64{}
	l.commitIn = map[uint64]uint64{}
	l.cmdAt = map[uint64][]entKey{}
	l.everVoter = map[uint64]bool{}
	l.okUpdates = map[uint64]*opRec{}
	l.cfgAt = map[uint64]*Config{}
	l.snapsSeen = map[string]bool{}
	l.init2()
	l.candidates = map[uint64]int{}
	l.appliedBy = map[uint64]int{}
}

func hashBytes(b []byte) uint64 {
	h := fnv.New64a()
	_, _ = h.Write(b)
	return h.Sum64()
}

// ---- life-cycle callbacks ------------------------------------------------------------------

func (l *ledgers) onStarted(ni *nodeInc) {
	r := ni.r
	ni.obs = incObs{started: true, terms: map[uint64]uint64{}}
	o := &ni.obs
	o.term, o.votedFor = r.term, r.votedFor
	o.state = r.state
	o.snapIndex, o.snapTerm = r.snaps.index, r.snaps.term
	// C10/C05: a restarted node reports a term no older than any it held before
	if r.term < ni.node.maxTermSeen && ni.node.wiped == 0 {
		l.run.violate("C10", "term_regressed", "restart:term", "%v restarted with term %d, had held %d", ni, r.term, ni.node.maxTermSeen)
	}
	for id, n := range r.configs.Latest.Nodes {
		if n.Voter {
			l.everVoter[id] = true
		}
	}
	o.lastTimeoutNow, o.lastConfigChange, o.lastElectionTimeout, o.heardAt = -1, -1, -1, -1
	o.leaderClearedAt, o.followerTimeoutAt = -1, -1
	o.tvTerm, o.tvVote = r.term, r.votedFor
	l.onStartedVotes(ni)
	if l.run.stop {
		return
	}
	if ni.node.tampered {
		// a second instance had opened (and possibly repaired) this directory while it was being
		// served: what the node finds at its next start is not the library's doing
		l.run.reach("restart_on_tampered_directory")
		return
	}
	// C10: the log a node restarts with is contiguous with its latest snapshot
	prev, last, snap := r.log.PrevIndex(), r.lastLogIndex, r.snaps.index
	if ni.n > 0 && ni.node.lastCrashAtIO {
		l.run.reach("restart_after_io_crash")
	}
	if ni.n > 0 && ni.node.wiped == 0 && ni.node.ackedIndex > 0 {
		ai, at := ni.node.ackedIndex, ni.node.ackedTerm
		if ai > last && ai > snap {
			l.run.violate("C10", "acked_entry_lost", "restart:acked_entry_lost", "%v restarted with last log index %d (snapshot %d) but had acknowledged storing (%d,%d) before it crashed", ni, last, snap, ai, at)
			return
		}
		if ai > snap && ai > prev {
			if t, err := r.storage.getEntryTerm(ai); err == nil && t != at {
				l.run.violate("C10", "acked_entry_changed", "restart:acked_entry_changed", "%v restarted holding (%d,%d) where it had acknowledged (%d,%d)", ni, ai, t, ai, at)
				return
			}
		}
		l.run.reach("restart_with_acks")
	}
	if ni.n > 0 {
		if !(prev <= snap && snap <= last) {
			l.run.violate("C10", "log_snapshot_gap", "restart:log_not_contiguous_with_snapshot", "%v restarted with log (%d,%d] and snapshot index %d", ni, prev, last, snap)
			return
		}
		if snap > prev {
			if t, err := r.storage.getEntryTerm(snap); err == nil && t != r.snaps.term {
				l.run.violate("C10", "log_snapshot_conflict", "restart:log_conflicts_with_snapshot", "%v restarted with snapshot (%d,%d) but its log holds (%d,%d)", ni, snap, r.snaps.term, snap, t)
				return
			}
		}
	}
	l.scanLog(ni, true)
	if ni.n > 0 && !l.run.stop {
		l.checkMembershipView(ni, "after restart")
	}
}

// checkMembershipView (C12): the node's view of the membership is the newest
// configuration entry of its own log, else the label of its latest snapshot.
func (l *ledgers) checkMembershipView(ni *nodeInc, when string) {
	r := ni.r
	exp := configFromLog(r)
	if exp == nil {
		return
	}
	if !sameMembership(exp, &r.configs.Latest) {
		l.run.violate("C12", "membership_view_wrong", "membership_view:"+strings.ReplaceAll(when, " ", "_"), "%v %s: its view of the membership is %v, but the newest configuration its log (%d,%d] and snapshot %d hold is %v", ni, when, r.configs.Latest, r.log.PrevIndex(), r.lastLogIndex, r.snaps.index, *exp)
	}
}

func (l *ledgers) onServeReturned(ni *nodeInc) { l.onServeReturned2(ni) }

// onStartFailed: C10 — a node restarted on the directory a crash left behind must start.
func (l *ledgers) onStartFailed(ni *nodeInc, what string, err error) {
	if ni.dead {
		return
	}
	if ni.node.tampered {
		// see onStarted: a second instance is or was busy in this directory (it may hold the lock
		// that SetIdentity and Serve take); the harness tries again later
		l.run.reach("start_failed_on_tampered_directory")
		if ni.node.inc == ni {
			ni.node.inc = nil
		}
		return
	}
	if ni.diskErrs > 0 {
		// the start itself hit an injected storage error: try again later
		l.run.reach("start_failed_on_disk_error")
		if ni.node.inc == ni {
			ni.node.inc = nil
		}
		return
	}
	l.run.violate("C10", "restart_failed", "restart_failed:"+what+":"+errClass(err), "%v could not start on its storage directory (incarnation %d): %s: %v\n%s", ni, ni.n, what, err, listDir(ni.dir))
}

func errClass(err error) string {
	s := err.Error()
	// strip paths and numbers so that the signature names the failure, not the instance
	out := make([]rune, 0, len(s))
	for _, r := range s {
		if r >= '0' && r <= '9' {
			continue
		}
		out = append(out, r)
	}
	s = string(out)
	if i := strings.Index(s, "/dev/shm"); i >= 0 {
		j := strings.IndexAny(s[i:], " :")
		if j < 0 {
			j = len(s) - i
		}
		s = s[:i] + "<dir>" + s[i+j:]
	}
	if len(s) > 100 {
		s = s[:100]
	}
	return s
}

func listDir(dir string) string {
	out := ""
	_ = filepath.Walk(dir, func(p string, info os.FileInfo, err error) error {
		if err == nil && !info.IsDir() {
			rel, _ := filepath.Rel(dir, p)
			out += fmt.Sprintf("    %s %d\n", rel, info.Size())
		}
		return nil
	})
	return out
}

func (l *ledgers) onCrash(ni *nodeInc, image string) {}
func (l *ledgers) onWipe(n *simNode)                 {}
func (l *ledgers) onHeal()                           {}

// ---- C01 ------------------------------------------------------------------------------------

func (l *ledgers) sawLeader(ni *nodeInc, term uint64) {
	id := ni.node.id
	if prev, ok := l.leaderOf[term]; ok {
		if prev != id {
			l.run.violate("C01", "two_leaders", "two_leaders", "term %d has two leaders: node %d and node %d", term, prev, id)
		}
		return
	}
	l.leaderOf[term] = id
	if l.lastLeader != 0 && l.lastLeader != id {
		l.leaderChanges++
		if l.upto > 0 {
			l.run.reach("leader_change_after_commit")
		}
	}
	l.lastLeader = id
	for _, o := range l.run.liveIncs() {
		if o.obs.started && o.obs.last > l.upto {
			l.run.reach("elected_with_uncommitted")
			break
		}
	}
}

// ---- log scanning: C04, C02 --------------------------------------------------------------------

func (l *ledgers) termAt(ni *nodeInc, i uint64) (uint64, bool) {
	if t, ok := ni.obs.terms[i]; ok {
		return t, true
	}
	if i == ni.obs.snapIndex && i > 0 {
		return ni.obs.snapTerm, true
	}
	return 0, false
}

// scanLog brings the shadow of ni's log up to date and feeds the entry ledger.
func (l *ledgers) scanLog(ni *nodeInc, full bool) {
	run := l.run
	r := ni.r
	o := &ni.obs
	prev, last := r.log.PrevIndex(), r.lastLogIndex
	if r.log.LastIndex() != last && r.log.LastIndex() >= prev {
		// lastLogIndex mirrors the log except while the log is empty after a snapshot
		if !(r.log.Count() == 0 && last == r.snaps.index) {
			run.violate("C19", "last_index_mismatch", "lastLogIndex!=log", "%v: lastLogIndex=%d but log holds (%d,%d]", ni, last, prev, r.log.LastIndex())
			return
		}
	}
	o.snapIndex, o.snapTerm = r.snaps.index, r.snaps.term
	wasLeader := o.leaderTerm != 0 && r.state == Leader && o.leaderTerm == r.term
	if ni.acked > last {
		ni.acked, ni.ackedTerm = last, r.lastLogTerm // a leader made this node drop a conflicting suffix
	}
	// entries that disappeared from the tail
	for i := last + 1; i <= o.last; i++ {
		if t, ok := o.terms[i]; ok {
			l.entryGone(ni, i, t, 0, wasLeader)
			delete(o.terms, i)
		}
	}
	// entries compacted away from the front
	for i := o.prev + 1; i <= prev && i <= o.last; i++ {
		delete(o.terms, i)
	}
	if last > prev {
		e := &entry{}
		for i := last; i > prev; i-- {
			if err := r.storage.getEntry(i, e); err != nil {
				run.violate("C09", "log_hole", "log_hole", "%v: entry %d in (%d,%d] unreadable: %v", ni, i, prev, last, err)
				return
			}
			old, had := o.terms[i]
			if had && old == e.term && !full {
				break // unchanged below (a changed term below would imply a change here)
			}
			if had && old != e.term {
				l.entryGone(ni, i, old, e.term, wasLeader)
			}
			o.terms[i] = e.term
			l.ledgerCheck(ni, i, e)
		}
		// chain check for what was (re)read
	}
	o.prev, o.last, o.lastTerm = prev, last, r.lastLogTerm
	if last > prev {
		if t := o.terms[last]; t != r.lastLogTerm {
			run.violate("C19", "last_term_mismatch", "lastLogTerm!=log", "%v: lastLogTerm=%d but entry %d has term %d", ni, r.lastLogTerm, last, t)
		}
	}
}

// entryGone: ni no longer holds (i,t) at index i (newTerm==0: removed from the tail).
func (l *ledgers) entryGone(ni *nodeInc, i, t, newTerm uint64, wasLeader bool) {
	run := l.run
	r := ni.r
	if wasLeader {
		run.violate("C04", "leader_rewrote_log", "leader_rewrote", "%v, leader of term %d, removed or rewrote its own entry (%d,%d) -> term %d", ni, r.term, i, t, newTerm)
		return
	}
	if ct, ok := l.committed[i]; ok && ct == t && i > r.snaps.index {
		// Every leader of a term at or above the one in which the entry became committed holds it
		// (leader completeness), so only the request of a leader deposed before that can make a
		// node replace its copy: a lagging node still following that older leader, whose copy was
		// not among those that committed the entry and which gets the entry back from the current
		// leader. That is inherent in Raft and not what the property rules out; below the node's
		// own commit index, or under a leader of the committing term or later, it is a violation.
		if cin, seen := l.commitIn[i]; !seen || r.term >= cin || i <= ni.obs.commit {
			run.violate("C02", "committed_entry_dropped", "committed_dropped", "%v dropped committed entry (%d,%d) (now term %d, last=%d, snapshot=%d; node in term %d, entry committed in term %d)", ni, i, t, newTerm, r.lastLogIndex, r.snaps.index, r.term, l.commitIn[i])
			return
		}
		run.reach("copy_of_committed_entry_replaced_under_deposed_leader")
	}
	run.reach("truncate_conflict")
}

func (l *ledgers) ledgerCheck(ni *nodeInc, i uint64, e *entry) {
	run := l.run
	k := entKey{i, e.term}
	h := hashBytes(e.data)
	prevTerm, prevKnown := uint64(0), false
	if i-1 > ni.r.log.PrevIndex() {
		// read directly: the shadow may not have been refreshed below yet
		pe := &entry{}
		if err := ni.r.storage.getEntry(i-1, pe); err == nil {
			prevTerm, prevKnown = pe.term, true
		}
	} else if i-1 == ni.r.snaps.index {
		prevTerm, prevKnown = ni.r.snaps.term, true
	} else if i == 1 {
		prevTerm, prevKnown = 0, true
	}
	rec, ok := l.entries[k]
	if !ok {
		rec = &entRec{typ: e.typ, hash: h, size: len(e.data), prevTerm: prevTerm, prevKnown: prevKnown, firstSeen: run.sim.Steps, firstBy: ni.node.id}
		if e.typ == entryUpdate {
			rec.cmd = decodeCmd(e.data)
			l.cmdAt[rec.cmd] = append(l.cmdAt[rec.cmd], k)
			if len(l.cmdAt[rec.cmd]) > 1 {
				// one client command stored under two (index,term) pairs: legal only if the
				// older copy never commits; checked when both are committed
				run.reach("cmd_two_entries")
			}
		}
		if e.typ == entryConfig {
			c := &Config{}
			if err := c.decode(e); err == nil {
				rec.config = c
				l.onConfigEntry(ni, i, e.term, c)
			}
		}
		l.entries[k] = rec
		return
	}
	if rec.typ != e.typ || rec.hash != h || rec.size != len(e.data) {
		run.violate("C04", "entry_mismatch", "entry_mismatch", "entry (%d,%d) differs: node %d first stored type=%v hash=%x len=%d, %v holds type=%v hash=%x len=%d",
			i, e.term, rec.firstBy, rec.typ, rec.hash, rec.size, ni, e.typ, h, len(e.data))
		return
	}
	if prevKnown {
		if rec.prevKnown && rec.prevTerm != prevTerm {
			run.violate("C04", "prefix_mismatch", "prefix_mismatch", "entry (%d,%d): predecessor has term %d on %v but had term %d where first seen (node %d)", i, e.term, prevTerm, ni, rec.prevTerm, rec.firstBy)
			return
		}
		if !rec.prevKnown {
			rec.prevTerm, rec.prevKnown = prevTerm, true
		}
	}
}

// ---- commit observation ------------------------------------------------------------------------

func (l *ledgers) markCommitted(i, t uint64, by string) {
	run := l.run
	if ct, ok := l.committed[i]; ok {
		if ct != t {
			run.violate("C02", "two_commits_one_index", "commit_conflict", "index %d committed with term %d (%s) and with term %d (%s)", i, ct, l.commitBy[i], t, by)
		}
		return
	}
	l.committed[i] = t
	l.commitBy[i] = by
	for {
		nt, ok := l.committed[l.upto+1]
		if !ok {
			break
		}
		l.upto++
		rec := l.entries[entKey{l.upto, nt}]
		if rec == nil {
			run.infra = fmt.Sprintf("oracle: committed entry (%d,%d) missing from ledger", l.upto, nt)
			run.stop = true
			return
		}
		if rec.typ == entryConfig && rec.config != nil {
			l.cfgIdx = append(l.cfgIdx, l.upto)
			l.cfgAt[l.upto] = rec.config
		}
		if rec.typ == entryUpdate {
			// the same command may sit in an older, never committed entry too; but it
			// must not be committed twice (C07 exactly-once)
			for _, seen := range l.G {
				_ = seen
				break
			}
			l.G = append(l.G, rec.cmd)
			l.Gidx = append(l.Gidx, l.upto)
		}
	}
}

func (l *ledgers) observe(ni *nodeInc) {
	run := l.run
	r := ni.r
	o := &ni.obs
	// term never goes backwards (C05/C19)
	if r.term < o.term {
		run.violate("C05", "term_decreased", "term_decreased", "%v: term went from %d to %d", ni, o.term, r.term)
		return
	}
	if r.term > ni.node.maxTermSeen {
		ni.node.maxTermSeen = r.term
	}
	o.term, o.votedFor = r.term, r.votedFor
	if o.tvTerm != r.term || o.tvVote != r.votedFor {
		o.tvTerm, o.tvVote = r.term, r.votedFor
		l.checkTermVoteDurable(ni)
		if run.stop {
			return
		}
	}
	l.checkTransferInProgress(ni)
	if run.stop {
		return
	}
	if o.snapIndex != r.snaps.index || o.snapTerm != r.snaps.term {
		l.onSnapshotPublished(ni)
		if run.stop {
			return
		}
	}
	if o.prev != r.log.PrevIndex() || o.last != r.lastLogIndex || o.lastTerm != r.lastLogTerm || o.snapIndex != r.snaps.index {
		l.scanLog(ni, false)
		if run.stop {
			return
		}
	}
	if r.state == Leader {
		l.sawLeader(ni, r.term)
		if o.leaderTerm != r.term {
			o.leaderTerm = r.term
		}
	}
	o.state = r.state
	c := r.commitIndex
	if c < o.commit {
		run.violate("C19", "commit_decreased", "commit_decreased", "%v: commit index went from %d to %d", ni, o.commit, c)
		return
	}
	if c > o.commit {
		if c > r.lastLogIndex {
			run.violate("C19", "commit_beyond_log", "commit>last", "%v: commit index %d beyond last log index %d", ni, c, r.lastLogIndex)
			return
		}
		for i := o.commit + 1; i <= c; i++ {
			if t, ok := o.terms[i]; ok {
				if ct, seen := l.commitIn[i]; !seen || r.term < ct {
					l.commitIn[i] = r.term
				}
				if _, known := l.commitHash[i]; !known {
					e := &entry{}
					if err := r.storage.getEntry(i, e); err == nil {
						l.commitHash[i] = hashBytes(e.data) ^ uint64(e.typ)<<56
					}
				}
				l.markCommitted(i, t, ni.String())
				if run.stop {
					return
				}
			}
		}
		o.commit = c
	}
	if ni.idle() {
		l.checkIdleAuthority(ni)
		if !run.stop {
			l.checkIdleStatus(ni)
		}
	}
}

// ---- C12 / C09: published snapshots -----------------------------------------------------------

// configAtIndex: the newest committed configuration entry at or below index.
func (l *ledgers) configAtIndex(index uint64) *Config {
	var c *Config
	for _, i := range l.cfgIdx {
		if i > index {
			break
		}
		c = l.cfgAt[i]
	}
	return c
}

func sameMembership(a, b *Config) bool {
	if a.Index != b.Index || a.Term != b.Term || len(a.Nodes) != len(b.Nodes) {
		return false
	}
	for id, n := range a.Nodes {
		if m, ok := b.Nodes[id]; !ok || m != n {
			return false
		}
	}
	return true
}

// onSnapshotPublished checks the snapshot a node just made its latest one.
func (l *ledgers) onSnapshotPublished(ni *nodeInc) {
	run := l.run
	r := ni.r
	idx, term := r.snaps.index, r.snaps.term
	if idx == 0 {
		return
	}
	if idx < ni.obs.snapIndex {
		run.violate("C19", "snapshot_index_decreased", "snapshot_index_decreased", "%v: snapshot index went from %d to %d", ni, ni.obs.snapIndex, idx)
		return
	}
	meta, err := r.snaps.meta()
	if err != nil || meta.index != idx {
		run.violate("C12", "snapshot_meta_unreadable", "meta_unreadable", "%v: latest snapshot %d has unreadable label: %v (label index %d)", ni, idx, err, meta.index)
		return
	}
	key := fmt.Sprintf("%d/%d/%d", ni.node.id, ni.n, idx)
	if l.snapsSeen[key] {
		return
	}
	l.snapsSeen[key] = true
	run.reach("snapshot_published")
	if len(l.cfgIdx) >= 2 {
		run.reach("snapshot_after_config_change")
	}
	// (index, term) is a committed entry
	ct, ok := l.committed[idx]
	if !ok {
		run.violate("C09", "snapshot_of_uncommitted", "snapshot_uncommitted_index", "%v published a snapshot at index %d which nobody has committed (committed prefix: %d)", ni, idx, l.upto)
		return
	}
	if ct != term || meta.term != term {
		run.violate("C12", "snapshot_term_wrong", "label_term", "%v published snapshot labelled (%d,%d); the committed entry at %d has term %d", ni, idx, meta.term, idx, ct)
		return
	}
	// content: captured at the labelled index, and equal to replaying the log up to it
	f, err := os.Open(snapFile(r.snaps.dir, idx))
	if err != nil {
		run.violate("C12", "snapshot_file_missing", "snap_file_missing", "%v: snapshot %d published but its file cannot be opened: %v", ni, idx, err)
		return
	}
	capIdx, capTerm, cmds, err := readSnapPayload(bufio.NewReader(f))
	f.Close()
	if err != nil {
		run.violate("C09", "snapshot_unreadable", "snap_unreadable", "%v: snapshot %d unreadable: %v", ni, idx, err)
		return
	}
	if capIdx != idx || capTerm != term {
		run.violate("C12", "snapshot_label_index_wrong", "label_index", "%v: snapshot labelled (%d,%d) holds state captured at (%d,%d)", ni, idx, term, capIdx, capTerm)
		return
	}
	want := 0
	for _, gi := range l.Gidx {
		if gi <= idx {
			want++
		}
	}
	if len(cmds) != want {
		run.violate("C09", "snapshot_content_wrong", "snap_length", "%v: snapshot at %d holds %d commands; replaying the log to %d gives %d", ni, idx, len(cmds), idx, want)
		return
	}
	for i, id := range cmds {
		if l.G[i] != id {
			run.violate("C09", "snapshot_content_wrong", "snap_content", "%v: snapshot at %d: command %d is %d, committed sequence has %d", ni, idx, i+1, id, l.G[i])
			return
		}
	}
	// membership in force at the snapshot index
	exp := l.configAtIndex(idx)
	if exp == nil {
		run.infra = fmt.Sprintf("oracle: no committed configuration at or below %d", idx)
		run.stop = true
		return
	}
	if !sameMembership(exp, &meta.config) {
		kind := "label_config_other"
		if meta.config.Index < exp.Index {
			kind = "label_config_older"
		} else if meta.config.Index > exp.Index {
			kind = "label_config_newer"
		}
		run.violate("C12", "snapshot_config_wrong", kind, "%v: snapshot at index %d is labelled with %v; the configuration in force at that index is %v", ni, idx, meta.config, *exp)
		return
	}
}

// ---- C06: acknowledged entries are durable on a majority of voters ---------------------------------

func (run *simRun) sampleC06(index uint64) bool {
	every := run.c06Every
	if every <= 0 {
		return false
	}
	return splitmix64(run.seed^index*0x9e3779b97f4a7c15)%uint64(every) == 0
}

func splitmix64(x uint64) uint64 {
	x += 0x9e3779b97f4a7c15
	z := x
	z = (z ^ (z >> 30)) * 0xbf58476d1ce4e5b9
	z = (z ^ (z >> 27)) * 0x94d049bb133111eb
	return z ^ (z >> 31)
}

// configInLog: the newest configuration entry in ni's log (what the leader
// itself must be using), from the ledger; nil if the log holds none.
func (l *ledgers) configInLog(ni *nodeInc) *Config {
	var best uint64
	var c *Config
	for i, t := range ni.obs.terms {
		if i > best {
			if rec := l.entries[entKey{i, t}]; rec != nil && rec.typ == entryConfig && rec.config != nil {
				best, c = i, rec.config
			}
		}
	}
	return c
}

// configFromLog decodes the newest configuration entry of r's log (falling
// back to the label of its snapshot): the configuration a leader has to use,
// read from the log and not from the leader's cached view.
func configFromLog(r *Raft) *Config {
	e := &entry{}
	for i := r.lastLogIndex; i > r.log.PrevIndex(); i-- {
		if err := r.storage.getEntry(i, e); err != nil {
			break
		}
		if e.typ == entryConfig {
			c := &Config{}
			if c.decode(e) == nil {
				return c
			}
		}
	}
	if meta, err := r.snaps.meta(); err == nil && meta.config.Index > 0 {
		return &meta.config
	}
	return nil
}

// durableHolds: would node n, killed right now and restarted, hold (i,t)?
func (run *simRun) durableHolds(n *simNode, i, t uint64) (bool, string) {
	src := n.dir
	if n.inc != nil && !n.inc.dead {
		src = n.inc.dir
	}
	run.c06Seq++
	img := filepath.Join(run.baseDir, fmt.Sprintf("c06-%d", run.c06Seq))
	defer os.RemoveAll(img)
	if err := copyDir(src, img); err != nil {
		return false, "image: " + err.Error()
	}
	run.tape.Frozen++
	simunix.RealUnmap = true
	defer func() { run.tape.Frozen--; simunix.RealUnmap = false }()
	st, err := openStorage(img, run.simOptions())
	if err != nil {
		if strings.Contains(err.Error(), "cannot allocate memory") || strings.Contains(err.Error(), "too many open files") {
			run.infra = "oracle: re-opening a directory image: " + err.Error()
			run.stop = true
		}
		return false, "open: " + err.Error()
	}
	defer st.log.Close()
	if i <= st.snaps.index {
		return true, "snapshot"
	}
	if !st.log.Contains(i) {
		return false, fmt.Sprintf("log (%d,%d]", st.log.PrevIndex(), st.log.LastIndex())
	}
	e := &entry{}
	if err := st.getEntry(i, e); err != nil {
		return false, err.Error()
	}
	if e.term != t {
		return false, fmt.Sprintf("term %d", e.term)
	}
	return true, "log"
}

func (l *ledgers) checkDurableOnMajority(ldr *nodeInc, i, t uint64, what string) {
	run := l.run
	conf := configFromLog(ldr.r)
	if conf == nil {
		c := ldr.r.configs.Latest
		conf = &c
	}
	voters, holders := 0, 0
	detail := ""
	nonvoterHolders := 0
	for _, n := range run.nodes {
		cn, member := conf.Nodes[n.id]
		ok, how := run.durableHolds(n, i, t)
		if member && cn.Voter {
			voters++
			if ok {
				holders++
			}
			detail += fmt.Sprintf("    voter n%d: durable=%v (%s)\n", n.id, ok, how)
		} else {
			if ok {
				nonvoterHolders++
			}
			detail += fmt.Sprintf("    non-voter n%d: durable=%v (%s)\n", n.id, ok, how)
		}
	}
	run.reach("c06_evaluated")
	if voters != run.cfg.Voters {
		run.reach("c06_changed_voter_count")
	}
	if nonvoterHolders > 0 {
		run.reach("c06_nonvoter_holds")
	}
	if holders < voters/2+1 {
		sig := "not_durable_on_majority"
		prop := "C06"
		if !conf.isVoter(ldr.node.id) {
			sig += ":leader_not_voter"
			if run.target == "C11" {
				prop = "C11" // a non-voter's own copy (or acknowledgement) was counted towards commitment
			}
		} else if nonvoterHolders > 0 && holders+nonvoterHolders >= voters/2+1 && run.target == "C11" {
			sig += ":nonvoter_acks_counted"
			prop = "C11"
		}
		run.violate(prop, "not_durable_on_majority", sig, "entry (%d,%d) is reported committed (%s %v) but only %d of %d voters of %v hold it durably\n%s", i, t, what, ldr, holders, voters, *conf, detail)
	}
}

// ---- C03 ----------------------------------------------------------------------------------------

func (l *ledgers) onApply(f *recFSM, id uint64) {
	run := l.run
	l.appliedBy[f.inc.node.id]++
	n := len(f.cmds)
	if n > len(l.G) {
		run.violate("C03", "applied_uncommitted", "applied_beyond_committed", "%v applied command %d at position %d but only %d updates are committed", f.inc, id, n, len(l.G))
		return
	}
	if l.G[n-1] != id {
		run.violate("C03", "applied_wrong_command", "applied_mismatch", "%v applied command %d at position %d; the committed sequence has %d there", f.inc, id, n, l.G[n-1])
	}
}

func (l *ledgers) onRestore(f *recFSM, index, term uint64) {
	run := l.run
	if len(f.cmds) > len(l.G) {
		run.violate("C09", "snapshot_has_uncommitted", "restore_beyond_committed", "%v restored %d commands, only %d committed", f.inc, len(f.cmds), len(l.G))
		return
	}
	for i, id := range f.cmds {
		if l.G[i] != id {
			run.violate("C09", "snapshot_content_wrong", "restore_mismatch", "%v restored snapshot whose command %d is %d; committed sequence has %d", f.inc, i+1, id, l.G[i])
			return
		}
	}
	// number of updates at or below the snapshot's index
	want := 0
	for _, gi := range l.Gidx {
		if gi <= index {
			want++
		}
	}
	if index <= l.upto && want != len(f.cmds) {
		run.violate("C09", "snapshot_length_wrong", "restore_length", "%v restored snapshot captured at index %d with %d commands; replaying the log to %d gives %d", f.inc, index, len(f.cmds), index, want)
	}
	run.reach("restore")
}

// ---- configuration entries (C08 hook) ------------------------------------------------------

func (l *ledgers) onConfigEntry(ni *nodeInc, index, term uint64, c *Config) {
	if index > 1 {
		l.checkConfigStep(ni, index, c)
	}
	for id, n := range c.Nodes {
		if n.Voter {
			l.everVoter[id] = true
		}
	}
}

// ---- client history hooks --------------------------------------------------------------------

func (l *ledgers) onInvoke(op *opRec) {}

func (l *ledgers) onReturn(op *opRec) {
	t := op.task
	if op.inc.dead {
		op.Outcome = outAmbiguous
		return
	}
	err := t.Err()
	if err == nil && l.x.duringTransfer[op.task.(*newEntry).task] {
		l.run.violate("C16", "task_accepted_during_transfer", "task_accepted_during_transfer:"+op.Kind.String(), "%s task handed to leader %v while a leadership transfer was in progress completed successfully instead of being rejected", op.Kind, op.inc)
		return
	}
	if err == nil {
		op.Outcome = outOK
		switch v := t.Result().(type) {
		case uint64:
			op.Pos = v
		case readResult:
			op.Pos, op.Hash = v.N, v.Hash
		}
		if op.Kind == opUpdate {
			l.okUpdates[op.Cmd] = op
		}
		return
	}
	op.Err = err.Error()
	switch e := err.(type) {
	case NotLeaderError:
		if e.Lost {
			op.Outcome = outAmbiguous
		} else {
			op.Outcome = outDefinite
		}
	case InProgressError:
		op.Outcome = outDefinite
	default:
		op.Outcome = outAmbiguous
	}
}

type memberRec struct {
	inc  *nodeInc
	desc string
	conf Config
}

func (l *ledgers) onMemberInvoke(ni *nodeInc, conf Config, desc string) *memberRec {
	l.run.reach("member_request")
	return &memberRec{inc: ni, desc: desc, conf: conf}
}

func (l *ledgers) onMemberReturn(rec *memberRec, t Task, done bool) {
	if !done {
		return
	}
	if t.Err() == nil {
		l.run.reach("member_accepted")
	} else {
		l.run.reach("member_rejected")
	}
}

type transferRec struct {
	inc    *nodeInc
	target uint64
	term0  uint64
}

func (l *ledgers) onTransferInvoke(ni *nodeInc, target uint64, timeout time.Duration) *transferRec {
	l.run.reach("transfer_request")
	return &transferRec{inc: ni, target: target, term0: ni.r.term}
}

func (l *ledgers) onTransferReturn(rec *transferRec, t Task, done bool) {
	run := l.run
	if !done || rec.inc.dead {
		return
	}
	if t.Err() != nil {
		run.reach("transfer_failed")
		return
	}
	run.reach("transfer_succeeded")
	r := rec.inc.r
	// success means: the old leader has stepped down in favour of a higher term
	if r.term <= rec.term0 {
		run.violate("C16", "transfer_success_without_new_term", "transfer_ok_same_term", "TransferLeadership on %v returned success but the node is still in term %d (state %v), the term in which the request was submitted", rec.inc, r.term, r.state)
	}
}

// ---- tracer and probes ----------------------------------------------------------------------

func (run *simRun) installTracer() {
	tracer.stateChanged = func(r *Raft) {
		run.dbg("n%d state -> %c T%d", r.nid, r.state, r.term)
		ni := run.incOf(r)
		if ni == nil || ni.dead {
			return
		}
		if r.state == Leader {
			run.led.sawLeader(ni, r.term)
			run.led.onBecameLeader(ni)
		}
		if r.state != Candidate {
			ni.obs.transferPermit = false // the permission of a timeout-now request ends with the candidacy
		}
	}
	tracer.unreachable = func(r *Raft, id uint64, since time.Time, err error) {
		if ni := run.incOf(r); ni != nil && !ni.dead && err == ErrFaultyFollower {
			// the status flips back to "reachable" with every new connection, so the report is
			// remembered per leader incarnation and term rather than sampled
			run.led.x.reportedFaulty[[3]uint64{uint64(ni.node.id), r.term, id}] = true
		}
	}
	tracer.roundCompleted = func(r *Raft, id uint64, rd round) {
		ni := run.incOf(r)
		if ni == nil || ni.dead {
			return
		}
		run.reach("round_completed")
		run.led.x.rounds[fmt.Sprintf("%d/%d/%d/%d", ni.node.id, ni.n, r.term, id)] = rd.LastIndex
	}
	tracer.configChanged = func(r *Raft) {
		if ni := run.incOf(r); ni != nil && !ni.dead && ni.obs.started {
			ni.obs.lastConfigChange = run.sim.Now
		}
	}
	tracer.leaderChanged = func(r *Raft) {
		if ni := run.incOf(r); ni != nil && !ni.dead && ni.obs.started && r.leader == 0 {
			ni.obs.leaderClearedAt = run.sim.Now
		}
	}
	tracer.configCommitted = func(r *Raft) {
		if ni := run.incOf(r); ni != nil && !ni.dead && ni.obs.started {
			ni.obs.lastConfigChange = run.sim.Now // a committed demotion of the leader makes followers forget it
		}
	}
	tracer.configReverted = func(r *Raft) {
		if ni := run.incOf(r); ni != nil && !ni.dead && ni.obs.started {
			ni.obs.lastConfigChange = run.sim.Now
			run.reach("config_reverted")
		}
	}
	tracer.electionStarted = func(r *Raft) {
		ni := run.incOf(r)
		if ni == nil || ni.dead {
			return
		}
		run.led.elections++
		ni.obs.lastElectionTimeout = run.sim.Now
		run.led.recordVote(ni, r.term, r.nid, "own candidacy")
		run.led.candidates[r.term]++
		if run.led.candidates[r.term] == 2 {
			run.reach("two_candidates_one_term")
		}
		if !r.configs.Latest.isVoter(r.nid) {
			run.violate("C11", "nonvoter_election", "nonvoter_election", "%v started an election for term %d but is not a voter in its latest configuration %v", ni, r.term, r.configs.Latest)
		}
	}
}

// incOf maps a Raft to its incarnation for the ledger oracles; members of the
// decoy cluster are not theirs.
func (run *simRun) incOf(r *Raft) *nodeInc {
	ni := run.raftOf[r]
	if ni == nil || ni.node.decoy {
		return nil
	}
	return ni
}

func (run *simRun) probe(name string, args []interface{}) {
	if name == "Raft.onRequest:enter" {
		run.led.checkRequestIdentity(args[0].(*Raft), args[1].(request), args[2].(*conn))
		if run.stop {
			return
		}
	}
	switch name {
	case "Raft.compactLog:exit":
		run.reach("compaction")
	case "Raft.onInstallSnapRequest:exit":
		if res, _ := args[3].(rpcResult); res == success {
			run.reach("install_snapshot")
			if ni := run.incOf(args[0].(*Raft)); ni != nil && !ni.dead && ni.obs.started {
				run.led.checkMembershipView(ni, "after a snapshot was installed")
			}
		}
	case "Raft.setCommitIndex:enter":
		// the instant a leader decides that index is committed: its own copy has been
		// flushed, the next configuration (if this commits one) is not yet appended
		r := args[0].(*Raft)
		idx := args[1].(uint64)
		if ni := run.incOf(r); ni != nil && !ni.dead && r.state == Leader && run.sampleC06(idx) && idx > r.snaps.index {
			if t, err := r.storage.getEntryTerm(idx); err == nil {
				run.led.checkDurableOnMajority(ni, idx, t, "commit index of leader")
			}
		}
	case "follower.onTimeout:enter":
		if ni := run.incOf(args[0].(*follower).Raft); ni != nil && !ni.dead && ni.obs.started {
			ni.obs.followerTimeoutAt = run.sim.Now
		}
	case "Raft.onVoteRequest:enter":
		if ni := run.incOf(args[0].(*Raft)); ni != nil && !ni.dead && ni.obs.started {
			run.led.onVoteEnterStability(ni, args[1].(*voteReq))
		}
	case "Raft.onVoteRequest:exit":
		if ni := run.incOf(args[0].(*Raft)); ni != nil && !ni.dead && ni.obs.started {
			res, _ := args[2].(rpcResult)
			run.led.onVoteExit(ni, args[1].(*voteReq), res)
			if !run.stop {
				run.led.onVoteExitStability(ni, args[1].(*voteReq), res)
			}
		}
	case "Raft.onTimeoutNowRequest:exit":
		if ni := run.incOf(args[0].(*Raft)); ni != nil && !ni.dead && ni.obs.started {
			res, _ := args[1].(rpcResult)
			run.led.onTimeoutNowExit(ni, res)
			// a fault placed where it matters: the designated successor pauses right after it
			// has acknowledged, so the old leader's wait for the new term runs out
			if res == success && run.phase == "chaos" && !ni.nc.Stalled && run.tape.Chance(rt.StPlan, 1, 3) {
				after := int64(run.cfg.LatBase) * int64(run.tape.Choose(rt.StPlan, 4)) / 2
				d := int64(200*time.Millisecond) + int64(run.cfg.HB)*int64(run.tape.Choose(rt.StPlan, 4))/2
				run.sim.After(after, "stall-successor", func() {
					if run.phase != "chaos" || ni.dead || ni.nc.Stalled {
						return
					}
					ni.nc.Stalled = true
					run.fault("stall_successor")
					run.sim.After(d, "unstall", func() { ni.nc.Stalled = false })
				})
			}
		}
	case "connPool.doRPC:enter":
		// the instant a leader sends timeout-now: that is the designation of the successor
		if req, ok := args[1].(*timeoutNowReq); ok {
			pool := args[0].(*connPool)
			if tn := run.node(pool.nid); tn != nil && tn.inc.live() && tn.inc.obs.started {
				dl, _ := args[3].(time.Time)
				run.led.onTimeoutNowEnter(tn.inc, req, dl)
			}
		}
	case "leader.doChangeConfig:enter":
		ld := args[0].(*leader)
		if ni := run.incOf(ld.Raft); ni != nil && !ni.dead && ni.obs.started {
			run.led.onDoChangeConfig(ni, ld, args[2].(Config))
			// a fault placed where it matters: a snapshot (and with it a compaction) right after
			// a node left the configuration, while its replication is still winding down
			if run.phase == "chaos" && run.prof.Snapshot > 0 {
				c := args[2].(Config)
				removes := false
				for id := range ld.repls {
					if _, ok := c.Nodes[id]; !ok {
						removes = true
					}
				}
				if removes && run.tape.Chance(rt.StPlan, 1, 2) {
					after := int64(run.cfg.LatBase) * int64(run.tape.Choose(rt.StPlan, 8)) / 2
					run.sim.After(after, "snapshot-after-removal", func() {
						if run.phase == "chaos" && !ni.dead && !ni.exited {
							run.fault("snapshot_after_removal")
							run.spawnAdmin("snapshot", func(a *admin) { a.submit(ni, TakeSnapshot(0), "snapshot", 40*run.cfg.HB) })
						}
					})
				}
			}
		}
	case "leader.storeEntry:enter":
		ld := args[0].(*leader)
		if ni := run.incOf(ld.Raft); ni != nil && !ni.dead && ni.obs.started && ld.transfer.inProgress() {
			for ne := args[1].(*newEntry); ne != nil; ne = ne.next {
				if ne.task != nil {
					run.led.x.duringTransfer[ne.task] = true
				}
			}
		}
	case "leader.onTransfer:enter":
		ld := args[0].(*leader)
		if ni := run.incOf(ld.Raft); ni != nil && !ni.dead && ni.obs.started {
			run.led.onTransferEnter(ni, args[1].(transferLdr))
		}
	case "leader.onTransfer:exit":
		ld := args[0].(*leader)
		if ni := run.incOf(ld.Raft); ni != nil && !ni.dead && ni.obs.started {
			run.led.onTransferExit(ni, ld, args[1].(transferLdr))
		}
	case "replication.runLoop:enter":
		if g := run.sim.Cur(); g != nil {
			g.User = args[0].(*replication)
		}
	case "candidate.startElection:enter":
		// does this election carry a leadership-transfer permission that was really given?
		c := args[0].(*candidate)
		if ni := run.incOf(c.Raft); ni != nil && !ni.dead {
			run.led.x.permitted[[2]uint64{c.nid, c.term + 1}] = ni.obs.transferPermit
		}
	case "storage.clearLog:enter":
		// an installed snapshot supersedes the log: what was acknowledged beyond the snapshot
		// index is legitimately discarded with it
		st := args[0].(*storage)
		for _, n := range run.nodes {
			if ni := n.inc; ni != nil && !ni.dead && ni.r != nil && ni.r.storage == st && ni.acked > st.snaps.index {
				ni.acked, ni.ackedTerm = st.snaps.index, st.snaps.term
			}
			// a fault placed where it matters: die while the log is being replaced by the snapshot
			if ni := n.inc; ni != nil && !ni.dead && ni.r != nil && ni.r.storage == st && run.phase == "chaos" && run.prof.Crash > 0 && ni.crashAtIO == 0 && run.tape.Chance(rt.StDisk, run.prof.Crash, 400) {
				ni.crashAtIO = 1 + run.tape.Choose(rt.StDisk, 12)
				run.fault("crash_armed_at_log_reset")
			}
		}
	case "storage.removeGTE:enter":
		// a leader made this node drop a conflicting suffix: what it had acknowledged
		// beyond that point is legitimately gone
		st := args[0].(*storage)
		for _, n := range run.nodes {
			if ni := n.inc; ni != nil && !ni.dead && ni.r != nil && ni.r.storage == st {
				idx := args[1].(uint64)
				if ni.acked >= idx {
					ni.acked, ni.ackedTerm = idx-1, args[2].(uint64)
				}
				// a fault placed where it matters: die within the next few file operations, i.e.
				// between dropping the suffix and making its replacement durable
				if run.phase == "chaos" && run.prof.Crash > 0 && ni.crashAtIO == 0 && run.tape.Chance(rt.StDisk, run.prof.Crash, 400) {
					if run.tape.Chance(rt.StDisk, 1, 2) {
						ni.crashAtIO = 1 + run.tape.Choose(rt.StDisk, 8)
						run.fault("crash_armed_at_truncation")
					} else {
						// entries go into the mapped file without any system call: kill by time
						after := int64(run.cfg.LatBase)*int64(run.tape.Choose(rt.StDisk, 4))/4 + int64(run.tape.Choose(rt.StDisk, 50))*int64(time.Microsecond)
						run.sim.After(after, "crash-at-truncation", func() {
							if run.phase == "chaos" && !ni.dead && !ni.exited && ni.node.inc == ni {
								run.fault("crash_soon_after_truncation")
								run.crash(ni, "step")
							}
						})
					}
				}
			}
		}
	case "Raft.onAppendEntriesRequest:enter":
		if ni := run.incOf(args[0].(*Raft)); ni != nil && !ni.dead {
			req := args[1].(*appendReq)
			ni.pendPrev, ni.pendN = req.prevLogIndex, req.numEntries
		}
	case "Raft.onAppendEntriesRequest:exit":
		ni := run.incOf(args[0].(*Raft))
		if ni == nil || ni.dead {
			break
		}
		res, _ := args[3].(rpcResult)
		if res == staleTerm {
			run.reach("append_stale_term")
		}
		if ni.obs.started {
			run.led.onAppendHandled(ni, args[1].(*appendReq), res)
		}
		if res == success {
			// a success reply tells the leader that this node stores everything up to the
			// last entry of the request (the leader records exactly that as match index)
			r := ni.r
			acked := ni.pendPrev + ni.pendN
			if acked > r.lastLogIndex {
				acked = r.lastLogIndex
			}
			if acked > ni.acked && acked > r.snaps.index {
				if t, err := r.storage.getEntryTerm(acked); err == nil {
					ni.acked, ni.ackedTerm = acked, t
					if acked > ni.ackedMax {
						ni.ackedMax = acked
					}
					if acked > ni.node.ackedMaxEver {
						ni.node.ackedMaxEver = acked // survives the incarnation: the leader cannot know of a later disk loss
					}
				}
			}
			if ni.pendN == 0 {
				run.reach("heartbeat_ack")
			}
		}
	}
	if run.dbgOn {
		switch name {
		case "Raft.onRequest:enter":
			r := args[0].(*Raft)
			run.dbg("n%d T%d %c <- %T%+v", r.nid, r.term, r.state, args[1], args[1])
		case "Raft.onRequest:exit":
			r := args[0].(*Raft)
			run.dbg("n%d T%d %c -> result=%v err=%v last=%d commit=%d", r.nid, r.term, r.state, args[3], args[4], r.lastLogIndex, r.commitIndex)
		case "replication.onAppendEntriesResp:enter":
			repl := args[0].(*replication)
			resp := args[1].(*appendResp)
			run.dbg("repl->n%d resp T%d %v last=%d reqLast=%v match=%d next=%d", repl.status.id, resp.term, resp.result, resp.lastLogIndex, args[2], repl.matchIndex, repl.nextIndex)
		case "candidate.onVoteResult:enter":
			c := args[0].(*candidate)
			resp := args[1].(rpcResponse)
			if resp.err != nil {
				run.dbg("n%d voteResult from n%d err=%v", c.nid, resp.from, resp.err)
			} else {
				run.dbg("n%d voteResult from n%d T%d result=%v (needed %d)", c.nid, resp.from, resp.getTerm(), resp.getResult(), c.votesNeeded)
			}
		case "connPool.getConn:exit":
			pool := args[0].(*connPool)
			if c, _ := args[2].(*conn); c != nil {
				if sc, ok := c.rwc.(*simnet.Conn); ok {
					run.dbg("n%d pool->n%d getConn conn%d buffered=%d", pool.src, pool.nid, sc.ID, sc.Buffered())
				}
			}
		case "connPool.returnConn:enter":
			pool := args[0].(*connPool)
			if c, _ := args[1].(*conn); c != nil {
				if sc, ok := c.rwc.(*simnet.Conn); ok {
					run.dbg("n%d pool->n%d returnConn conn%d buffered=%d bufr=%d peerPending=%d", pool.src, pool.nid, sc.ID, sc.Buffered(), c.bufr.Buffered(), sc.Peer.Pending())
				}
			}
		case "candidate.startElection:exit":
			c := args[0].(*candidate)
			run.dbg("n%d startElection T%d", c.nid, c.term)
		case "Raft.onTakeSnapshot:enter":
			r := args[0].(*Raft)
			run.dbg("n%d onTakeSnapshot commit=%d snaps=%d committedCfg=%d latestCfg=%d inprogress=%v", r.nid, r.commitIndex, r.snaps.index, r.configs.Committed.Index, r.configs.Latest.Index, r.snapTakenCh != nil)
		case "Raft.onSnapshotTaken:enter":
			r := args[0].(*Raft)
			t := args[1].(snapTaken)
			run.dbg("n%d onSnapshotTaken meta=(%d,%d) err=%v prev=%d last=%d state=%c ldr.removeLTE=%d", r.nid, t.meta.index, t.meta.term, t.err, r.log.PrevIndex(), r.lastLogIndex, r.state, r.ldr.removeLTE)
			if r.state == Leader {
				for id, repl := range r.ldr.repls {
					run.dbg("   repl n%d: status.match=%d noContact=%v | goroutine match=%d next=%d viewPrev=%d", id, repl.status.matchIndex, !repl.status.noContact.IsZero(), repl.matchIndex, repl.nextIndex, repl.log.PrevIndex())
				}
			}
		case "Raft.onSnapshotTaken:exit":
			r := args[0].(*Raft)
			run.dbg("n%d onSnapshotTaken done prev=%d ldr.removeLTE=%d", r.nid, r.log.PrevIndex(), r.ldr.removeLTE)
		case "Raft.compactLog:enter":
			r := args[0].(*Raft)
			run.dbg("n%d compactLog(%v) prev=%d", r.nid, args[1], r.log.PrevIndex())
		case "leader.storeEntry:exit":
			l := args[0].(*leader)
			run.dbg("n%d leader storeEntry last=%d commit=%d", l.nid, l.lastLogIndex, l.commitIndex)
		}
	}
}

func (run *simRun) dbg(format string, a ...interface{}) {
	if run.dbgOn && run.dbgF != nil {
		// formatting may run instrumented String methods: no choice may be drawn
		run.tape.Frozen++
		run.dbgF(fmt.Sprintf(format, a...))
		run.tape.Frozen--
	}
}

// ---- per-step observation ---------------------------------------------------------------------

func (run *simRun) afterStep() {
	var dg uint64 = 1469598103934665603
	defer func() {
		if dg != run.lastDigest {
			run.lastDigest = dg
			run.digests[dg] = struct{}{}
		}
	}()
	for _, n := range run.nodes {
		ni := n.inc
		if ni == nil || ni.dead || ni.r == nil || !ni.obs.started {
			dg = mixHash(dg, 0)
			continue
		}
		dg = mixHash(mixHash(mixHash(mixHash(dg, uint64(ni.r.state)), ni.r.term), ni.r.commitIndex), ni.r.lastLogIndex)
		if ni.exited {
			continue
		}
		if ni.r.state == Leader {
			run.led.sawLeader(ni, ni.r.term)
		}
		if ni.consistent() && !ni.closing() && !ni.obsBroken {
			run.safeObserve(ni)
			if run.stop {
				return
			}
		}
	}
}

// safeObserve: a node into which a storage error was injected can be left with a
// half-reset log on its way to shutting down; reading it may fault. Such a node is no
// longer observed. Without an injected error a fault here is the harness's problem.
func (run *simRun) safeObserve(ni *nodeInc) {
	defer func() {
		if v := recover(); v != nil {
			ni.obsBroken = true
			if ni.intruder != nil && !ni.closing() {
				// a second instance got past the lock and writes the same files
				run.violate("C20", "two_instances", "two_instances_serve_one_directory", "the storage of %v became unreadable (%v) while a second Raft instance was running on its directory", ni, v)
				if !run.stop {
					run.reach("unobservable_two_instances")
				}
			} else if ni.diskErrs == 0 && !ni.node.tampered {
				run.infra = fmt.Sprintf("oracle faulted while observing %v: %v", ni, v)
				run.stop = true
			} else {
				run.reach("unobservable_after_disk_error")
			}
		}
	}()
	run.led.observe(ni)
}

// ---- settle (C17) --------------------------------------------------------------------------------

func (run *simRun) settleBudget() int64 { return 200 * 2 * int64(run.cfg.HB) }

func (run *simRun) settleCheck() {
	if run.stop || run.phase != "settle" {
		return
	}
	l := &run.led
	ok, why := run.converged()
	if ok {
		l.settled = true
		run.beginShutdown()
		return
	}
	if run.sim.Now-run.healedAt > run.settleBudget() {
		if why == "no_leader" && run.electionBlockedByUncommittedConfig() {
			why = "no_leader:uncommitted_config_disables_up_to_date_nodes"
		}
		if why == "no_leader" && run.votersNotRunning() {
			// the premise of the property (a majority of the voters is running) does not hold: a
			// voter has shut itself down, for example as removed while replaying an old removal
			// although it was added again later. Nothing is concluded from such a run.
			run.reach("no_leader_but_majority_of_voters_not_running")
			run.beginShutdown()
			return
		}
		if run.prof.DiskErr > 0 {
			// liveness is not demanded of runs with injected storage errors: end the run
			run.reach("no_convergence_under_disk_errors")
			run.beginShutdown()
			return
		}
		run.violate("C17", "no_convergence", "settle:"+why, "cluster did not converge within %v of simulated time after the last fault: %s\n%s%s", time.Duration(run.settleBudget()), why, run.describeCluster(), run.sim.Describe())
		return
	}
	run.sim.After(int64(run.cfg.HB), "settle-check", run.settleCheck)
}

// votersNotRunning: fewer than a quorum of the voters of the current configuration (the newest
// one any running node holds) are running (Serve has not returned). A node with an older
// configuration may see a quorum of *its* voters running, but those have moved on and do not
// vote for it.
func (run *simRun) votersNotRunning() bool {
	var newest *Config
	for _, ni := range run.liveIncs() {
		c := &ni.r.configs.Latest
		if newest == nil || c.Index > newest.Index || (c.Index == newest.Index && c.Term > newest.Term) {
			newest = c
		}
	}
	if newest == nil {
		return true
	}
	running := 0
	for id, n := range newest.Nodes {
		if !n.Voter {
			continue
		}
		if o := run.node(id); o != nil && o.inc.live() {
			running++
		}
	}
	return running < newest.quorum()
}

// electionBlockedByUncommittedConfig recognises one specific stuck state: some
// node is a non-voter (or no member) in its own latest configuration, that
// configuration entry is not committed, and its log is more up to date than
// the log of every node that is still allowed to campaign. The nodes that may
// campaign can then never collect its vote, and it never campaigns itself.
func (run *simRun) electionBlockedByUncommittedConfig() bool {
	l := &run.led
	moreUpToDate := func(a, b *Raft) bool {
		return a.lastLogTerm > b.lastLogTerm || (a.lastLogTerm == b.lastLogTerm && a.lastLogIndex > b.lastLogIndex)
	}
	var campaigners, blocked []*nodeInc
	for _, ni := range run.liveIncs() {
		r := ni.r
		if r.configs.Latest.isVoter(r.nid) {
			campaigners = append(campaigners, ni)
			continue
		}
		if _, committed := l.committed[r.configs.Latest.Index]; !committed && r.configs.Latest.Index > 0 {
			blocked = append(blocked, ni)
		}
	}
	if len(blocked) == 0 || len(campaigners) == 0 {
		return false
	}
	for _, c := range campaigners {
		// c needs a quorum of its own configuration; it is blocked if the votes it
		// could still get (itself and voters of its config that are not more up to date) fall short
		conf := c.r.configs.Latest
		can := 0
		for id, n := range conf.Nodes {
			if !n.Voter {
				continue
			}
			if id == c.node.id {
				can++
				continue
			}
			o := run.node(id)
			if o == nil || !o.inc.live() {
				continue
			}
			if !moreUpToDate(o.inc.r, c.r) {
				can++
			}
		}
		if can >= conf.quorum() {
			return false
		}
	}
	return true
}

func (run *simRun) describeCluster() string {
	s := ""
	for _, n := range run.nodes {
		ni := n.inc
		if ni == nil || ni.r == nil {
			s += fmt.Sprintf("  n%d: down\n", n.id)
			continue
		}
		r := ni.r
		s += fmt.Sprintf("  %v: state=%v term=%d leader=%d commit=%d last=(%d,%d) prev=%d snap=%d fsm=%d exited=%v latest=%v\n", ni, r.state, r.term, r.leader, r.commitIndex,
			r.lastLogIndex, r.lastLogTerm, r.log.PrevIndex(), r.snaps.index, len(ni.fsm.cmds), ni.exited, r.configs.Latest)
	}
	return s
}

// converged: one leader, probe update committed, every live member's FSM equals G.
func (run *simRun) converged() (bool, string) {
	l := &run.led
	var ldr *nodeInc
	for _, ni := range run.liveIncs() {
		if ni.r.state == Leader {
			if ldr != nil {
				return false, "two_leaders_visible"
			}
			ldr = ni
		}
	}
	if ldr == nil {
		return false, "no_leader"
	}
	if !ldr.consistent() {
		return false, "leader_busy"
	}
	if run.doneClients < len(run.clients) {
		return false, "clients_still_running"
	}
	// membership changes complete too, and without the help of further writes: the clients have
	// stopped, and the probe below is submitted only once the configuration is stable
	if l.probeOp == nil {
		if why := run.pendingActions(ldr); why != "" {
			return false, why
		}
	}
	if l.probeOp == nil || (l.probeOp.Outcome != outPending && l.probeOp.Outcome != outOK) {
		// submit a fresh update through an ordinary client
		op := &opRec{}
		l.probeOp = op
		cl := &client{run: run, id: -1}
		run.sim.Spawn("probe-client", nil, func() {
			res := cl.do(ldr, opUpdate)
			op.Outcome = res.Outcome
			if res.Outcome == outPending {
				op.Outcome = outUnknown
			}
		})
		return false, "probe_pending"
	}
	if l.probeOp.Outcome != outOK {
		return false, "probe_pending"
	}
	conf := ldr.r.configs.Latest
	for _, ni := range run.liveIncs() {
		if _, member := conf.Nodes[ni.node.id]; !member {
			continue
		}
		if len(ni.fsm.cmds) != len(l.G) && ni.node.tampered {
			run.reach("tampered_node_not_converged")
			continue // its storage was rewritten under it by a second instance (C20 profile)
		}
		if len(ni.fsm.cmds) != len(l.G) {
			// A follower that came back with an empty disk is, by the library's documented
			// contract (ErrFaultyFollower: "should be removed from cluster"), not repaired by
			// the leader that still remembers its match index. Only that case is excused.
			if ni.node.wiped > 0 && ldr.r.ldr != nil {
				if repl := ldr.r.ldr.repls[ni.node.id]; repl != nil && (repl.status.err == ErrFaultyFollower || l.x.reportedFaulty[[3]uint64{uint64(ldr.node.id), ldr.r.term, uint64(ni.node.id)}]) {
					run.reach("wiped_follower_reported_faulty")
					continue
				}
			}
			return false, fmt.Sprintf("fsm_behind:n%d", ni.node.id)
		}
	}
	return true, ""
}

// pendingActions: a promotion, demotion or removal that the leader's latest configuration still
// carries although the node concerned is up (and has not lost its disk). An uncommitted
// configuration is pending as well.
func (run *simRun) pendingActions(ldr *nodeInc) string {
	r := ldr.r
	if !r.configs.IsCommitted() {
		return "config_uncommitted"
	}
	for id, n := range r.configs.Latest.Nodes {
		if n.Action == None {
			continue
		}
		t := run.node(id)
		if t == nil || !t.inc.live() || t.wiped > 0 {
			continue // down, stopped or reported faulty: the action waits for it legitimately
		}
		run.reach("pending_action_waited_for")
		return "pending_action"
	}
	return ""
}

func (run *simRun) finalChecks() {
	run.led.checkConnIdentities()
	if run.stop {
		return
	}
	run.led.checkHistory()
	if !run.stop {
		run.led.checkTasksAtEnd()
	}
}

// nontrivial evaluates, per property, the reach rule of DESIGN.md section 6.1.
func (run *simRun) nontrivial() map[string]bool {
	l := &run.led
	re := run.st.Reach
	fa := run.st.Faults
	restarts := fa["restart"]
	nodes20 := 0
	for _, n := range l.appliedBy {
		if n >= 20 {
			nodes20++
		}
	}
	m := map[string]bool{}
	m["C01"] = l.elections >= 3 && (re["two_candidates_one_term"] > 0 || l.leaderChanges >= 1)
	m["C02"] = re["leader_change_after_commit"] > 0 && (re["truncate_conflict"] > 0 || re["elected_with_uncommitted"] > 0)
	m["C03"] = nodes20 >= 2 && (l.leaderChanges >= 1 || re["restore"] > 0 || restarts > 0)
	m["C04"] = re["truncate_conflict"] > 0 || re["append_stale_term"] > 0
	m["C05"] = re["vote_request_contested_term"] > 0 || re["vote_request_in_restart_term"] > 0
	m["C06"] = re["c06_evaluated"] > 0 && (re["c06_changed_voter_count"] > 0 || re["c06_nonvoter_holds"] > 0)
	m["C07"] = run.phase == "done" && run.histStats[0]+run.histStats[1]+run.histStats[2] >= 30 && run.histStats[1] >= 1 && l.leaderChanges >= 1
	crashes := fa["crash:io"] + fa["crash:step"]
	m["C08"] = re["config_step_checked"] >= 2 && (l.leaderChanges >= 1 || crashes > 0)
	m["C09"] = re["snapshot_published"] > 0 && re["compaction"] > 0 && (re["restore"] > 0 || re["install_snapshot"] > 0)
	m["C10"] = fa["crash:io"] > 0 && re["restart_after_io_crash"] > 0
	m["C11"] = (re["promotion"] > 0 || re["config_step_checked"] > 0) && (re["timeout_now_received"] > 0 || l.elections > 0)
	m["C12"] = re["snapshot_after_config_change"] > 0
	kinds := 0
	for _, k := range []string{"snapshot_published", "transfer_request", "member_request"} {
		if re[k] > 0 {
			kinds++
		}
	}
	if restarts > 0 {
		kinds++
	}
	m["C15"] = kinds >= 3 && len(run.ops) >= 20
	m["C16"] = re["transfer_accepted"] > 0
	nfaults := 0
	for k, v := range fa {
		if k != "heal" && k != "restart" && k != "crash_armed" {
			nfaults += v
		}
	}
	m["C17"] = (nfaults >= 3 && (run.phase == "done" || run.phase == "shutdown")) || re["stability_clause_evaluated"] > 0
	m["C20"] = re["handshake_at_wrong_node"] > 0 || (fa["misroute"] > 0 && re["request_identity_checked"] > 0)
	m["C19"] = re["status_report"] >= 20 && re["status_report_role_change"] > 0 && (re["install_snapshot"] > 0 || re["truncate_conflict"] > 0 || re["config_reverted"] > 0)
	return m
}

var _ = io.EOF
