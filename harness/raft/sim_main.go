//go:build verif && go1.20

//go:debug asynctimerchan=0

package raft

import (
	"encoding/json"
	"fmt"
	"os"
	"runtime/debug"
	"testing"
	"testing/synctest"
	"time"

	"verif.local/sim/rt"
)

// job is what the orchestrator hands to a worker process.
type job struct {
	Profile   string `json:"profile"`
	BaseSeed  uint64 `json:"base_seed"`
	From      uint64 `json:"from"`
	Count     uint64 `json:"count"`
	Out       string `json:"out"`        // results, one JSON object per line
	ReplayDir string `json:"replay_dir"` // where replay files of violations go
	Replay    string `json:"replay"`     // replay this file instead of generating
	Trace     string `json:"trace"`      // full event log of each run (determinism self-test, debugging)
	MaxWallS  int    `json:"max_wall_s"`
	Scale     int    `json:"scale"` // thorough: multiplies the chaos length
	Prop      string `json:"prop"`  // the property the check decides
}

type runResult struct {
	Seed       uint64            `json:"seed"`
	K          uint64            `json:"k"`
	Profile    string            `json:"profile"`
	Steps      uint64            `json:"steps"`
	SimNS      int64             `json:"sim_ns"`
	WallMS     int64             `json:"wall_ms"`
	Hash       string            `json:"hash"`
	Config     runConfig         `json:"config"`
	Faults     map[string]int    `json:"faults"`
	Reach      map[string]int    `json:"reach"`
	Counters   map[string]uint64 `json:"counters"`
	Violation  *violation        `json:"violation,omitempty"`
	Infra      string            `json:"infra,omitempty"`
	ReplayAt   string            `json:"replay,omitempty"`
	TapeLen    [rt.NStreams]int  `json:"tape_len"`
	Phase      string            `json:"phase"`
	Nontrivial map[string]bool   `json:"nontrivial"`
	Digests    int               `json:"digests"`
	Sample     interface{}       `json:"sample,omitempty"`
	Incidental []*violation      `json:"incidental,omitempty"`
}

type replayFile struct {
	Property  string                `json:"property"`
	Oracle    string                `json:"oracle"`
	Signature string                `json:"signature"`
	Message   string                `json:"message"`
	Step      uint64                `json:"step"`
	Seed      uint64                `json:"seed"`
	Profile   string                `json:"profile"`
	Scale     int                   `json:"scale"`
	Target    string                `json:"target"`
	Config    runConfig             `json:"config"`
	Tape      [rt.NStreams][]uint32 `json:"tape"`
	Tail      []string              `json:"events_tail"`
	Hash      string                `json:"schedule_hash"`
	Shrunk    bool                  `json:"shrunk"`
	SeedOnly  bool                  `json:"seed_only,omitempty"` // no tape recorded: regenerate the run from the seed
}

func runOne(seed uint64, prof profile, tape *rt.Tape, jb *job) (res runResult, run *simRun) {
	run = newSimRun(seed, prof, tape, synctest.Wait)
	run.target = jb.Prop
	if jb.Scale > 1 {
		run.cfg.ChaosLen *= time.Duration(jb.Scale)
	}
	var traceF *os.File
	if jb.Trace != "" {
		traceF, _ = os.OpenFile(jb.Trace, os.O_WRONLY|os.O_CREATE|os.O_TRUNC, 0644)
		fmt.Fprintf(traceF, "# seed %d\n", seed)
		run.dbgOn = true
		run.dbgF = func(m string) { fmt.Fprintf(traceF, "    # %s\n", m) }
		run.sim.FullLog = func(e rt.LogEntry) {
			fmt.Fprintf(traceF, "%d %d %c %d %s %s\n", e.Step, e.Now, e.Kind, e.ID, run.sim.SiteName(e.Site), e.Name)
		}
	}
	rt.Install(run.sim)
	if run.infra == "" {
		run.setup()
	}
	if run.infra == "" {
		func() {
			defer func() {
				if v := recover(); v != nil {
					run.infra = fmt.Sprintf("panic in the harness (scheduler context): %v\n%s", v, debug.Stack())
				}
			}()
			run.loop()
		}()
	}
	rt.Uninstall()
	if traceF != nil {
		traceF.Close()
	}
	res = runResult{Seed: seed, Profile: prof.Name, Steps: run.sim.Steps, SimNS: run.sim.Now, Hash: fmt.Sprintf("%016x", run.sim.Hash),
		Config: run.cfg, Faults: run.st.Faults, Reach: run.st.Reach, Violation: run.viol, Infra: run.infra, Phase: run.phase}
	res.Incidental = run.incid
	res.Counters = run.counters()
	res.Nontrivial = run.nontrivial()
	res.Digests = len(run.digests)
	first := tape.Out[rt.StSched]
	if len(first) > 32 {
		first = first[:32]
	}
	res.Sample = map[string]interface{}{"seed": seed, "profile": prof.Name, "voters": run.cfg.Voters, "nonvoters": run.cfg.Nonvoters, "hb_ms": run.cfg.HB.Milliseconds(),
		"segment": run.cfg.SegSize, "steps": run.sim.Steps, "sim_s": float64(run.sim.Now) / 1e9, "faults": run.st.Faults, "counters": res.Counters,
		"first_schedule_choices": first, "nontrivial_for": res.Nontrivial}
	for i := 0; i < rt.NStreams; i++ {
		res.TapeLen[i] = tape.Pos(i)
	}
	clean := run.viol == nil && run.infra == "" && run.phase == "done"
	run.cleanup()
	_ = clean
	return
}

func (run *simRun) counters() map[string]uint64 {
	l := &run.led
	c := map[string]uint64{
		"elections":      uint64(l.elections),
		"leader_changes": uint64(l.leaderChanges),
		"terms":          uint64(len(l.leaderOf)),
		"committed":      l.upto,
		"updates":        uint64(len(l.G)),
		"entries":        uint64(len(l.entries)),
		"ops":            uint64(len(run.ops)),
		"dials":          run.net.Stats.Dials,
		"bytes":          run.net.Stats.BytesSent,
		"chunks":         run.net.Stats.Chunks,
		"held":           run.net.Stats.Held,
	}
	ok := uint64(0)
	for _, op := range run.ops {
		if op.Outcome == outOK {
			ok++
		}
	}
	c["ops_ok"] = ok
	return c
}

func writeReplay(jb *job, res *runResult, run *simRun, tape *rt.Tape) string {
	if jb.ReplayDir == "" || (res.Violation == nil && res.Infra == "") || run == nil {
		return ""
	}
	_ = os.MkdirAll(jb.ReplayDir, 0755)
	var rf replayFile
	if res.Violation != nil {
		rf = replayFile{Property: res.Violation.Prop, Oracle: res.Violation.Oracle, Signature: res.Violation.Sig, Message: res.Violation.Msg,
			Step: res.Violation.Step, Seed: res.Seed, Profile: res.Profile, Scale: jb.Scale, Target: jb.Prop, Config: res.Config, Tape: tape.Out, Hash: res.Hash}
	} else {
		// simulator trouble: kept for debugging the harness, never reported as a violation
		msg := res.Infra
		if len(msg) > 400 {
			msg = msg[:400]
		}
		rf = replayFile{Property: "INFRA", Oracle: "infra", Signature: "infra", Message: msg,
			Seed: res.Seed, Profile: res.Profile, Scale: jb.Scale, Target: jb.Prop, Config: res.Config, Tape: tape.Out, Hash: res.Hash}
	}
	for _, e := range run.sim.Tail(80) {
		rf.Tail = append(rf.Tail, fmt.Sprintf("%d t=%d %c %d %s %s", e.Step, e.Now, e.Kind, e.ID, run.sim.SiteName(e.Site), e.Name))
	}
	path := fmt.Sprintf("%s/%s-%d.json", jb.ReplayDir, rf.Property, res.Seed)
	b, _ := json.Marshal(rf)
	_ = os.WriteFile(path, b, 0644)
	return path
}

func TestSimWorker(t *testing.T) {
	path := os.Getenv("VERIF_JOB")
	if path == "" {
		t.Skip("VERIF_JOB not set")
	}
	b, err := os.ReadFile(path)
	if err != nil {
		t.Fatal(err)
	}
	var jb job
	if err := json.Unmarshal(b, &jb); err != nil {
		t.Fatal(err)
	}
	out := os.Stdout
	if jb.Out != "" {
		out, err = os.OpenFile(jb.Out, os.O_WRONLY|os.O_CREATE|os.O_APPEND, 0644)
		if err != nil {
			t.Fatal(err)
		}
		defer out.Close()
	}
	emit := func(v interface{}) {
		b, _ := json.Marshal(v)
		out.Write(append(b, '\n'))
	}
	deadline := time.Time{}
	if jb.MaxWallS > 0 {
		deadline = time.Now().Add(time.Duration(jb.MaxWallS) * time.Second)
	}

	if jb.Replay != "" {
		rb, err := os.ReadFile(jb.Replay)
		if err != nil {
			t.Fatal(err)
		}
		var rf replayFile
		if err := json.Unmarshal(rb, &rf); err != nil {
			t.Fatal(err)
		}
		prof, ok := profiles[rf.Profile]
		if !ok {
			t.Fatalf("unknown profile %q", rf.Profile)
		}
		jb.Scale = rf.Scale
		jb.Prop = rf.Target
		tape := rt.NewReplayTape(rf.Seed, rf.Tape)
		if rf.SeedOnly {
			tape = rt.NewTape(rf.Seed)
		}
		var res runResult
		var run *simRun
		func() {
			defer func() {
				if v := recover(); v != nil && res.Seed == 0 {
					res.Infra = fmt.Sprint("bubble: ", v)
				}
			}()
			synctest.Test(t, func(t *testing.T) { res, run = runOne(rf.Seed, prof, tape, &jb) })
		}()
		if res.Violation != nil {
			res.ReplayAt = writeReplay(&jb, &res, run, tape)
		}
		emit(res)
		return
	}

	prof, ok := profiles[jb.Profile]
	if !ok {
		t.Fatalf("unknown profile %q", jb.Profile)
	}
	for k := jb.From; k < jb.From+jb.Count; k++ {
		if !deadline.IsZero() && time.Now().After(deadline) {
			break
		}
		seed := rt.SplitMix(jb.BaseSeed, k)
		emit(map[string]interface{}{"starting": seed, "k": k})
		tape := rt.NewTape(seed)
		wall0 := time.Now()
		var res runResult
		var run *simRun
		func() {
			defer func() {
				if v := recover(); v != nil && res.Seed == 0 {
					res = runResult{Seed: seed, Infra: fmt.Sprint("bubble: ", v)}
				}
			}()
			synctest.Test(t, func(t *testing.T) { res, run = runOne(seed, prof, tape, &jb) })
		}()
		res.WallMS = time.Since(wall0).Milliseconds()
		res.K = k
		if (res.Violation != nil || res.Infra != "") && run != nil {
			res.ReplayAt = writeReplay(&jb, &res, run, tape)
		}
		emit(res)
		if res.Violation != nil || res.Infra != "" || res.Phase != "done" {
			// goroutines of an unfinished run cannot be reclaimed: a fresh worker continues
			return
		}
	}
}
