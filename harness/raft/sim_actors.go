//go:build verif && go1.20

//simgen:instrument

package raft

import (
	"context"
	"fmt"
	"net"
	"time"

	"verif.local/sim/rt"
)

// This file is instrumented by simgen like the code under test: its
// goroutines are ordinary simulated goroutines.

// ---- node ------------------------------------------------------------------------

func (ni *nodeInc) main() {
	run := ni.run
	defer func() { ni.exited = true; close(ni.gone) }()
	if err := SetIdentity(ni.dir, ni.node.cid, ni.node.id); err != nil {
		ni.newErr = err
		run.led.onStartFailed(ni, "SetIdentity", err)
		return
	}
	opt := run.simOptions()
	if run.dbgOn {
		opt.Logger = dbgLogger{run, ni.node.id}
	}
	r, err := New(opt, ni.fsm, ni.dir)
	if err != nil {
		ni.newErr = err
		run.led.onStartFailed(ni, "New", err)
		return
	}
	nc := ni.nc
	r.dialFn = func(network, address string, timeout time.Duration) (net.Conn, error) {
		return run.net.Dial(nc, address, timeout)
	}
	run.raftOf[r] = ni
	ni.r = r
	if ni.node.decoy {
		if ni.dead {
			r.doClose(ErrServerClosed)
		}
		ni.serveErr = r.Serve(ni.listener)
		return
	}
	run.led.onStarted(ni)
	if ni.dead {
		r.doClose(ErrServerClosed)
	}
	ni.serveErr = r.Serve(ni.listener)
	run.led.onServeReturned(ni)
}

// unwind lets a fenced incarnation leave through its own shutdown path.
func (ni *nodeInc) unwind() {
	for ni.r == nil && !ni.exited {
		time.Sleep(time.Millisecond)
	}
	if ni.r != nil {
		_ = ni.r.Shutdown(context.Background())
	}
}

func (ni *nodeInc) shutdown() {
	for ni.r == nil && !ni.exited {
		time.Sleep(time.Millisecond)
	}
	if ni.r != nil {
		_ = ni.r.Shutdown(context.Background())
	}
}

// ---- clients ----------------------------------------------------------------------

type client struct {
	run  *simRun
	id   int
	ops  int
	done bool
}

type readCmd struct{}

type readResult struct {
	N    uint64
	Hash uint64
}

func (run *simRun) startClient(i int) {
	cl := &client{run: run, id: i}
	run.clients = append(run.clients, cl)
	run.sim.Spawn("client", nil, cl.loop)
}

func (cl *client) loop() {
	run := cl.run
	t := run.tape
	defer func() { cl.done = true; run.doneClients++ }()
	for !run.stop {
		if run.phase != "chaos" {
			return
		}
		think := time.Duration(1+t.Choose(rt.StPlan, 8)) * run.cfg.HB / 16
		time.Sleep(think)
		if run.phase != "chaos" {
			return
		}
		ni := run.pickClientTarget()
		if ni == nil {
			continue
		}
		kind := opUpdate
		switch k := t.Choose(rt.StPlan, 10); {
		case k >= 9:
			kind = opBarrier
		case k >= 8:
			kind = opDirty
		case k >= 6:
			kind = opRead
		}
		cl.do(ni, kind)
		cl.ops++
	}
}

// pickClientTarget: usually the node believed to lead, sometimes any node.
func (run *simRun) pickClientTarget() *nodeInc {
	live := run.liveIncs()
	if len(live) == 0 {
		return nil
	}
	if !run.tape.Chance(rt.StPlan, 1, 4) {
		for _, ni := range live {
			if ni.r.state == Leader {
				return ni
			}
		}
	}
	return live[run.tape.Choose(rt.StPlan, len(live))]
}

func (cl *client) do(ni *nodeInc, kind opKind) *opRec {
	run := cl.run
	op := &opRec{Kind: kind, Client: cl.id, Node: ni.node.id, inc: ni}
	var task FSMTask
	switch kind {
	case opUpdate:
		run.nextCmd++
		op.Cmd = run.nextCmd
		pad := 0
		if run.cfg.PadMax > 0 {
			pad = run.tape.Choose(rt.StPlan, run.cfg.PadMax+1)
		}
		task = UpdateFSM(encodeCmd(op.Cmd, pad))
	case opRead:
		task = ReadFSM(readCmd{})
	case opDirty:
		task = DirtyReadFSM(readCmd{})
	case opBarrier:
		task = BarrierFSM()
	}
	op.task = task
	run.ops = append(run.ops, op)
	run.led.onInvoke(op)
	op.Invoke = run.sim.Steps
	select {
	case <-ni.r.Closed():
		op.Return = run.sim.Steps
		op.Outcome = outNotSubmitted
		return op
	case <-ni.gone: // Serve has returned (possibly with an error, without closing): nobody takes tasks any more
		op.Return = run.sim.Steps
		op.Outcome = outNotSubmitted
		return op
	case ni.r.FSMTasks() <- task:
	}
	op.submitted = true
	ni.tasks = append(ni.tasks, &taskRec{task: task, kind: "fsm:" + kind.String(), submittedAt: run.sim.Steps})
	patience := 40 * run.cfg.HB
	select {
	case <-task.Done():
	case <-time.After(patience):
		op.Return = run.sim.Steps
		op.Outcome = outUnknown
		return op
	}
	op.Return = run.sim.Steps
	run.led.onReturn(op)
	return op
}

// ---- admin actions -------------------------------------------------------------------

type admin struct {
	run  *simRun
	what string
}

func (run *simRun) spawnAdmin(what string, fn func(a *admin)) {
	a := &admin{run: run, what: what}
	run.admins++
	run.sim.Spawn("admin:"+what, nil, func() {
		defer func() { run.admins-- }()
		fn(a)
	})
}

// submit sends an ordinary task and waits for it (bounded patience).
func (a *admin) submit(ni *nodeInc, t Task, kind string, patience time.Duration) (done bool) {
	run := a.run
	select {
	case <-ni.r.Closed():
		return false
	case <-ni.gone:
		return false
	case ni.r.Tasks() <- t:
	}
	ni.tasks = append(ni.tasks, &taskRec{task: t, kind: kind, submittedAt: run.sim.Steps})
	select {
	case <-t.Done():
		// a reply produced by a crashed incarnation while it unwinds never reached anybody
		return !ni.dead
	case <-time.After(patience):
		return false
	}
}

func (a *admin) bootstrap(c Config) {
	run := a.run
	for !run.stop && (run.phase == "chaos" || run.phase == "settle") {
		ni := run.nodes[0].inc
		if !ni.live() {
			time.Sleep(run.cfg.HB)
			continue
		}
		t := ChangeConfig(c)
		if a.submit(ni, t, "bootstrap", 20*run.cfg.HB) {
			if t.Err() == nil {
				return
			}
			if _, ok := t.Err().(NotLeaderError); ok {
				return // already bootstrapped
			}
		}
		time.Sleep(run.cfg.HB)
	}
}

func (a *admin) transfer() {
	run := a.run
	ni := run.pickClientTarget()
	if ni == nil {
		return
	}
	t := run.tape
	var target uint64
	switch t.Choose(rt.StPlan, 6) {
	case 0, 1:
		target = 0
	case 2, 3:
		target = uint64(1 + t.Choose(rt.StPlan, len(run.nodes)))
	case 4:
		target = ni.node.id
	case 5:
		target = uint64(len(run.nodes) + 3)
	}
	timeout := time.Duration(t.Choose(rt.StPlan, 5)) * run.cfg.HB
	task := TransferLeadership(target, timeout)
	rec := run.led.onTransferInvoke(ni, target, timeout)
	done := a.submit(ni, task, "transfer", 40*run.cfg.HB)
	run.led.onTransferReturn(rec, task, done)
}

// getInfo asks a node for its status through the task API.
func (a *admin) getInfo(ni *nodeInc) (Info, bool) {
	t := GetInfo()
	if !a.submit(ni, t, "info", 20*a.run.cfg.HB) || t.Err() != nil {
		return Info{}, false
	}
	info, ok := t.Result().(Info)
	return info, ok
}

// member submits a (legal or illegal) membership change derived from the
// configuration a node reports.
func (a *admin) member() {
	run := a.run
	t := run.tape
	ni := run.pickClientTarget()
	if ni == nil {
		return
	}
	info, ok := a.getInfo(ni)
	if !ok || !info.Configs.IsBootstrapped() {
		return
	}
	conf := info.Configs.Latest
	var ids []uint64
	for id := uint64(1); id <= uint64(len(run.nodes)); id++ {
		if _, ok := conf.Nodes[id]; ok {
			ids = append(ids, id)
		}
	}
	pickMember := func(want func(Node) bool) (uint64, bool) {
		var c []uint64
		for _, id := range ids {
			if want(conf.Nodes[id]) {
				c = append(c, id)
			}
		}
		if len(c) == 0 {
			return 0, false
		}
		return c[t.Choose(rt.StPlan, len(c))], true
	}
	nact := 1 + t.Choose(rt.StPlan, 2)
	desc := ""
	for k := 0; k < nact; k++ {
		switch t.Choose(rt.StPlan, 10) {
		case 0, 1: // add a node that is not a member, with or without promotion
			var spare []uint64
			for id := uint64(1); id <= uint64(len(run.nodes)); id++ {
				if _, ok := conf.Nodes[id]; !ok {
					spare = append(spare, id)
				}
			}
			if len(spare) > 0 {
				id := spare[t.Choose(rt.StPlan, len(spare))]
				_ = conf.AddNonvoter(id, nodeAddr(id), t.Chance(rt.StPlan, 1, 2))
				desc += fmt.Sprintf("add%d ", id)
			}
		case 2, 3:
			if id, ok := pickMember(func(n Node) bool { return !n.Voter }); ok {
				_ = conf.SetAction(id, Promote)
				desc += fmt.Sprintf("promote%d ", id)
			}
		case 4, 5:
			if id, ok := pickMember(func(n Node) bool { return n.Voter }); ok {
				_ = conf.SetAction(id, Demote)
				desc += fmt.Sprintf("demote%d ", id)
			}
		case 6:
			if id, ok := pickMember(func(n Node) bool { return true }); ok {
				_ = conf.SetAction(id, Remove)
				desc += fmt.Sprintf("remove%d ", id)
			}
		case 7:
			if id, ok := pickMember(func(n Node) bool { return true }); ok {
				_ = conf.SetAction(id, ForceRemove)
				desc += fmt.Sprintf("forceremove%d ", id)
			}
		case 8: // stale or future index
			if t.Chance(rt.StPlan, 1, 2) && conf.Index > 0 {
				conf.Index--
			} else {
				conf.Index++
			}
			desc += "badindex "
		case 9: // requests the API documents as invalid
			switch t.Choose(rt.StPlan, 4) {
			case 0:
				if id, ok := pickMember(func(n Node) bool { return true }); ok {
					n := conf.Nodes[id]
					n.Voter = !n.Voter
					conf.Nodes[id] = n
					desc += fmt.Sprintf("flipvoter%d ", id)
				}
			case 1:
				if id, ok := pickMember(func(n Node) bool { return true }); ok {
					delete(conf.Nodes, id)
					desc += fmt.Sprintf("delete%d ", id)
				}
			case 2:
				for _, id := range ids {
					n := conf.Nodes[id]
					if n.Voter {
						n.Action = Remove
						conf.Nodes[id] = n
					}
				}
				desc += "removeallvoters "
			case 3:
				for id := uint64(1); id <= uint64(len(run.nodes)); id++ {
					if _, ok := conf.Nodes[id]; !ok {
						conf.Nodes[id] = Node{ID: id, Addr: nodeAddr(id), Voter: true}
						desc += fmt.Sprintf("addvoter%d ", id)
						break
					}
				}
			}
		}
	}
	task := ChangeConfig(conf)
	rec := run.led.onMemberInvoke(ni, conf, desc)
	done := a.submit(ni, task, "changeconfig", 40*run.cfg.HB)
	run.led.onMemberReturn(rec, task, done)
	if done && task.Err() == nil && t.Chance(rt.StPlan, 1, 3) {
		w := WaitForStableConfig()
		a.submit(ni, w, "waitstable", 40*run.cfg.HB)
	}
}

// intruder: a second instance tries to use a storage directory that is being
// served, or tries to give it another identity (C20).
func (a *admin) intruder() {
	run := a.run
	t := run.tape
	var cands []*nodeInc
	for _, n := range run.nodes {
		if n.inc != nil && !n.inc.dead && !n.inc.exited {
			cands = append(cands, n.inc)
		}
	}
	if len(cands) == 0 {
		return
	}
	ni := cands[t.Choose(rt.StPlan, len(cands))]
	if t.Chance(rt.StPlan, 1, 3) {
		// change of identity
		ni.node.tampered = true // SetIdentity takes the directory lock for a moment: a start at that moment is refused
		err := SetIdentity(ni.dir, ni.node.cid+7, ni.node.id+3)
		run.led.onSetIdentityAttempt(ni, err)
		return
	}
	// the first instance must be past Serve's lock (its state loop runs): an intruder that gets
	// there first is simply the instance that serves, and the other one is refused
	served := ni.r != nil && ni.mainG != nil && ni.r.ldr != nil && !ni.closing()
	if !served {
		return
	}
	// a refused attempt is often followed by another one (an operator retrying)
	for attempt := 0; attempt < 3; attempt++ {
		if !a.intrude(ni, served) || !t.Chance(rt.StPlan, 1, 2) {
			return
		}
	}
}

// intrude makes one attempt; it reports whether the attempt was refused in the expected way.
func (a *admin) intrude(ni *nodeInc, served bool) bool {
	run := a.run
	fsm := &recFSM{inc: &nodeInc{run: run, node: ni.node, dead: true}}
	// New opens (and where it finds something to repair, rewrites) the storage of a directory
	// that another instance is serving; only Serve takes the lock. What that does to the
	// serving instance is interference from outside, like an injected storage error: its
	// storage oracles are no longer demanded, the identity and exclusivity oracles are.
	ni.diskErrs++
	ni.node.tampered = true
	r2, err := New(run.simOptions(), fsm, ni.dir)
	if err != nil {
		run.led.onIntruder(ni, served, "new", err)
		return false
	}
	lst, lerr := run.net.Listen(nil, fmt.Sprintf("x%d:7000", run.sim.Steps))
	if lerr != nil {
		return false
	}
	done := false
	var serr error
	q := &rt.WaitQ{}
	inc2 := &rt.NodeCtx{ID: 200 + int(ni.node.id), ClockPPM: ni.nc.ClockPPM, User: fsm.inc} // a process of its own
	ni.intruder = r2
	defer func() { ni.intruder = nil }()
	run.sim.Spawn("intruder-serve", inc2, func() {
		serr = r2.Serve(lst)
		done = true
		q.Wake()
	})
	deadline := time.Now().Add(4 * run.cfg.HB)
	for !done && time.Now().Before(deadline) && r2.ldr == nil && !run.stop {
		time.Sleep(run.cfg.HB / 8)
	}
	if !done {
		if r2.ldr != nil {
			// it got past the lock and runs its state loop: two instances on one directory
			run.led.onIntruder(ni, served, "serving", nil)
		}
		_ = r2.Shutdown(context.Background())
		return false
	}
	_ = lst.Close()
	run.led.onIntruder(ni, served, "serve", serr)
	_ = r2.storage.log.Close()
	return serr == ErrLockExists
}

// monitor polls every node's status report through the task API (C19).
func (a *admin) monitor() {
	run := a.run
	for !run.stop && (run.phase == "chaos" || run.phase == "settle") {
		time.Sleep(run.cfg.HB / 2)
		for _, ni := range run.liveIncs() {
			if run.stop || !(run.phase == "chaos" || run.phase == "settle") {
				return
			}
			if info, ok := a.getInfo(ni); ok && !ni.dead {
				run.led.onInfo(ni, info)
			}
		}
	}
}

func (a *admin) snapshot() {
	run := a.run
	live := run.liveIncs()
	if len(live) == 0 {
		return
	}
	ni := live[run.tape.Choose(rt.StPlan, len(live))]
	thr := uint64(run.tape.Choose(rt.StPlan, 4))
	task := TakeSnapshot(thr)
	a.submit(ni, task, "snapshot", 40*run.cfg.HB)
}
