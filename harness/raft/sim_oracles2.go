//go:build verif && go1.20

package raft

import (
	"fmt"
	"path/filepath"
	"sort"
	"strconv"
	"strings"
	"time"

	"verif.local/sim/rt"
	"verif.local/sim/simnet"
)

// Second half of the oracles: votes (C05), client history (C07), membership
// (C08, C11), tasks and shutdown (C15), transfer (C16), stability (C17),
// status reports (C19).

type voteKey struct{ voter, term uint64 }

type ledgers2 struct {
	votes          map[voteKey]uint64
	rounds         map[string]uint64 // "leaderNode/leaderInc/term/target" -> last index of the newest completed round
	transfers      map[*task]*transferRec
	permitted      map[[2]uint64]bool // (candidate, term) -> that election was started while holding a timeout-now permission
	reportedFaulty map[[3]uint64]bool // (leader, term, follower): the leader reported ErrFaultyFollower
	lastClose      map[[2]int]int64   // (from,to) -> global time a connection between them was last closed or reset
	infoSeen       map[*nodeInc]*Info
	duringTransfer map[*task]bool // client tasks that reached a leader while it had a transfer in progress
	monitorRuns    int
}

func (l *ledgers) init2() {
	l.x.votes = map[voteKey]uint64{}
	l.x.rounds = map[string]uint64{}
	l.x.transfers = map[*task]*transferRec{}
	l.x.lastClose = map[[2]int]int64{}
	l.x.permitted = map[[2]uint64]bool{}
	l.x.reportedFaulty = map[[3]uint64]bool{}
	l.x.infoSeen = map[*nodeInc]*Info{}
	l.x.duringTransfer = map[*task]bool{}
}

// ---- C05 ----------------------------------------------------------------------------------------

// durableTermVote parses the term/vote file of a storage directory.
func durableTermVote(dir string) (term, vote uint64, n int) {
	m, _ := filepath.Glob(filepath.Join(dir, "*.term"))
	n = len(m)
	if n != 1 {
		return
	}
	s := strings.TrimSuffix(filepath.Base(m[0]), ".term")
	i := strings.IndexByte(s, '-')
	if i < 0 {
		n = -1
		return
	}
	t, e1 := strconv.ParseUint(s[:i], 10, 64)
	v, e2 := strconv.ParseUint(s[i+1:], 10, 64)
	if e1 != nil || e2 != nil {
		n = -1
	}
	return t, v, n
}

func (l *ledgers) recordVote(ni *nodeInc, term, candidate uint64, how string) {
	run := l.run
	k := voteKey{ni.node.id, term}
	if prev, ok := l.x.votes[k]; ok && prev != candidate {
		run.violate("C05", "two_votes_one_term", "two_votes_one_term", "node %d voted for %d and for %d in term %d (%s by %v)", ni.node.id, prev, candidate, term, how, ni)
		return
	}
	l.x.votes[k] = candidate
}

func (l *ledgers) onVoteExit(ni *nodeInc, req *voteReq, result rpcResult) {
	run := l.run
	r := ni.r
	run.reach("vote_request")
	if c := l.candidates[req.term]; c >= 2 {
		run.reach("vote_request_contested_term")
	}
	if ni.n > 0 && r.term == ni.obs.termAtStart {
		run.reach("vote_request_in_restart_term")
	}
	if result != success {
		return
	}
	run.reach("vote_granted")
	// the reply says granted: that vote for the requested term must be on disk now
	dt, dv, n := durableTermVote(ni.dir)
	if n != 1 || dt != req.term || dv != req.src {
		run.violate("C05", "granted_vote_not_durable", "granted_vote_not_durable", "%v granted its vote to %d for term %d, but its storage holds term=%d vote=%d (%d term files); in memory term=%d votedFor=%d",
			ni, req.src, req.term, dt, dv, n, r.term, r.votedFor)
		return
	}
	l.recordVote(ni, req.term, req.src, "vote reply")
}

// checkTermVoteDurable: at a consistent point memory and disk agree on (term, vote).
func (l *ledgers) checkTermVoteDurable(ni *nodeInc) {
	r := ni.r
	dt, dv, n := durableTermVote(ni.dir)
	if n != 1 || dt != r.term || dv != r.votedFor {
		l.run.violate("C05", "memory_ahead_of_disk", "term_vote_not_durable", "%v: in memory term=%d votedFor=%d, on disk term=%d vote=%d (%d term files)", ni, r.term, r.votedFor, dt, dv, n)
	}
}

func (l *ledgers) onStartedVotes(ni *nodeInc) {
	r := ni.r
	ni.obs.termAtStart = r.term
	if ni.node.wiped > 0 {
		return
	}
	if v, ok := l.x.votes[voteKey{ni.node.id, r.term}]; ok && v != r.votedFor {
		l.run.violate("C05", "vote_forgotten", "vote_lost_in_restart", "%v restarted in term %d with votedFor=%d but had granted its vote to %d in that term", ni, r.term, r.votedFor, v)
	}
}

// ---- C08 ------------------------------------------------------------------------------------------

func voterSet(c *Config) map[uint64]bool {
	m := map[uint64]bool{}
	for id, n := range c.Nodes {
		if n.Voter {
			m[id] = true
		}
	}
	return m
}

func (l *ledgers) checkConfigStep(ni *nodeInc, index uint64, c *Config) {
	run := l.run
	if c.numVoters() == 0 {
		run.violate("C08", "no_voter_left", "config_without_voter", "%v holds configuration entry %d without any voter: %v", ni, index, *c)
		return
	}
	// predecessor in the same log
	var pred *Config
	for j := index - 1; j > ni.r.log.PrevIndex(); j-- {
		t, ok := ni.obs.terms[j]
		if !ok {
			e := &entry{}
			if err := ni.r.storage.getEntry(j, e); err != nil {
				break
			}
			t = e.term
		}
		if rec := l.entries[entKey{j, t}]; rec != nil && rec.typ == entryConfig && rec.config != nil {
			pred = rec.config
			break
		}
	}
	if pred == nil {
		if meta, err := ni.r.snaps.meta(); err == nil && meta.config.Index > 0 && meta.config.Index < index {
			pred = &meta.config
		}
	}
	if pred == nil {
		return
	}
	a, b := voterSet(pred), voterSet(c)
	diff := 0
	for id := range a {
		if !b[id] {
			diff++
		}
	}
	for id := range b {
		if !a[id] {
			diff++
		}
	}
	run.reach("config_step_checked")
	if diff > 1 {
		run.violate("C08", "more_than_one_voter_changed", "config_step_two_voters", "configuration %d differs from its predecessor %d by %d voters:\n  %v\n  %v", index, pred.Index, diff, *pred, *c)
	}
}

func (l *ledgers) onDoChangeConfig(ni *nodeInc, ld *leader, c Config) {
	run := l.run
	r := ni.r
	run.reach("do_change_config")
	if c.Index == 1 {
		return
	}
	// the previous configuration is committed
	prevIdx := uint64(0)
	if pc := configFromLog(r); pc != nil {
		prevIdx = pc.Index
	}
	if prevIdx > r.commitIndex {
		run.violate("C08", "config_before_previous_committed", "config_while_uncommitted", "%v introduces a configuration while its previous one (entry %d) is not committed (commit index %d)", ni, prevIdx, r.commitIndex)
		return
	}
	// the leader has committed an entry of its own term
	if r.commitIndex > r.snaps.index {
		if t, err := r.storage.getEntryTerm(r.commitIndex); err == nil && t != r.term {
			run.violate("C08", "config_before_own_term_commit", "config_before_own_commit", "%v (term %d) introduces a configuration but the entry at its commit index %d has term %d", ni, r.term, r.commitIndex, t)
			return
		}
	} else if r.snaps.term != r.term {
		run.violate("C08", "config_before_own_term_commit", "config_before_own_commit", "%v (term %d) introduces a configuration but has committed nothing in its term", ni, r.term)
		return
	}
	// C11: promotions need a completed round in which the node really caught up
	cur := configFromLog(r)
	for id, n := range c.Nodes {
		if !n.Voter || cur == nil || cur.isVoter(id) {
			continue
		}
		if _, member := cur.Nodes[id]; !member {
			run.violate("C11", "voter_added_directly", "voter_without_promotion", "%v turns node %d into a voter although it is not even a member of %v", ni, id, *cur)
			return
		}
		run.reach("promotion")
		key := fmt.Sprintf("%d/%d/%d/%d", ni.node.id, ni.n, r.term, id)
		last, ok := l.x.rounds[key]
		if !ok {
			run.violate("C11", "promoted_without_round", "promoted_without_round", "%v promotes node %d although no round for it completed under this leader", ni, id)
			return
		}
		tn := run.node(id)
		if tn != nil && tn.inc.live() && tn.inc.obs.started {
			o := tn.inc
			lt, err := r.storage.getEntryTerm(last)
			if err != nil {
				// compacted on the leader since the round: the entry is committed, the ledger knows its term
				if ct, ok := l.committed[last]; ok {
					lt, err = ct, nil
				}
			}
			held := o.obs.snapIndex >= last
			if t, ok := o.obs.terms[last]; ok && err == nil && t == lt {
				held = true
			}
			// the observation is that of the node's last quiescent moment; a node that was paused
			// right after answering has acknowledged more than was observed: the ack ledger
			// (updated when the append handler returns) is current
			// (its highest ever: a suffix dropped later under a newer leader does not undo that the
			// node had caught up when the round completed)
			if o.ackedMax >= last || tn.ackedMaxEver >= last {
				held = true
			}
			if !held {
				tt := o.obs.terms[last]
				run.violate("C11", "promoted_without_catching_up", "promoted_log_behind", "%v promotes node %d after a round to index %d (leader's term there: %d, err %v), but %v holds (%d,%d] snapshot %d with term %d at that index", ni, id, last, lt, err, o, o.obs.prev, o.obs.last, o.obs.snapIndex, tt)
				return
			}
		}
	}
}

// ---- C11 ------------------------------------------------------------------------------------------

func (l *ledgers) onBecameLeader(ni *nodeInc) {
	r := ni.r
	// C02 (leader completeness): a node that becomes leader of term T holds every entry that
	// was committed in a term below T. (A leader of an old term may be "elected" late, after a
	// newer leader has already committed more: it is not a later leader.)
	e := &entry{}
	for i := r.log.PrevIndex() + 1; i <= l.upto; i++ {
		ct := l.committed[i]
		if in, ok := l.commitIn[i]; !ok || in >= r.term {
			continue
		}
		if i > r.lastLogIndex {
			l.run.violate("C02", "leader_lacks_committed_entry", "new_leader_lacks_committed", "%v became leader of term %d with last log index %d, but entry (%d,%d) is committed (%s)", ni, r.term, r.lastLogIndex, i, ct, l.commitBy[i])
			return
		}
		if err := r.storage.getEntry(i, e); err != nil {
			continue
		}
		if e.term != ct {
			l.run.violate("C02", "leader_lacks_committed_entry", "new_leader_other_term", "%v became leader of term %d holding (%d,%d) where (%d,%d) is committed (%s)", ni, r.term, i, e.term, i, ct, l.commitBy[i])
			return
		}
		if h, ok := l.commitHash[i]; ok && h != hashBytes(e.data)^uint64(e.typ)<<56 {
			l.run.violate("C02", "leader_holds_other_entry", "new_leader_other_entry", "%v became leader of term %d holding another entry at (%d,%d) than the one that was committed (%s)", ni, r.term, i, ct, l.commitBy[i])
			return
		}
	}
	if l.upto > 0 {
		l.run.reach("leader_checked_against_committed")
	}
	if !r.configs.Latest.isVoter(r.nid) {
		l.run.violate("C11", "nonvoter_leader", "nonvoter_became_leader", "%v became leader of term %d but is not a voter in its latest configuration %v", ni, r.term, r.configs.Latest)
	}
}

func (l *ledgers) onTimeoutNowExit(ni *nodeInc, result rpcResult) {
	run := l.run
	r := ni.r
	run.reach("timeout_now_received")
	ni.obs.lastTimeoutNow = run.sim.Now
	if result == success {
		ni.obs.transferPermit = true
	}
	if !r.configs.Latest.isVoter(r.nid) {
		run.reach("timeout_now_at_nonvoter")
		if result == success || r.state == Candidate {
			run.violate("C11", "nonvoter_timeout_now", "nonvoter_accepted_timeout_now", "%v accepted a timeout-now request (result %d, state %v) but is not a voter in %v", ni, result, r.state, r.configs.Latest)
		}
	}
}

func (l *ledgers) checkIdleAuthority(ni *nodeInc) {
	r := ni.r
	if r.state == Leader && r.configs.IsCommitted() && !r.configs.Latest.isVoter(r.nid) {
		l.run.violate("C11", "leader_after_demotion", "leads_after_committed_demotion", "%v still leads term %d although its committed latest configuration %v no longer lists it as voter", ni, r.term, r.configs.Latest)
	}
}

func (l *ledgers) onServeReturned2(ni *nodeInc) {
	run := l.run
	if ni.dead {
		return
	}
	// what this incarnation had acknowledged is what the next one must still hold
	ni.node.ackedIndex, ni.node.ackedTerm = ni.acked, ni.ackedTerm
	ni.node.lastCrashAtIO = false
	if ni.serveErr == ErrNodeRemoved {
		run.reach("node_removed_shutdown")
		c := l.configAtIndex(l.upto)
		// removed: a committed configuration lists the node and a later committed one does not
		// (the configurations from before the node joined do not count: F29)
		removedCommitted, wasMember := false, false
		for _, i := range l.cfgIdx {
			if _, ok := l.cfgAt[i].Nodes[ni.node.id]; ok {
				wasMember = true
			} else if wasMember {
				removedCommitted = true
			}
		}
		if !removedCommitted {
			run.violate("C11", "shutdown_before_removal_committed", "removed_before_commit", "%v shut itself down as removed, but no committed configuration excludes it (newest committed: %v)", ni, c)
			return
		}
	} else if !ni.stopping && ni.diskErrs > 0 {
		// stopped because of an injected storage error: allowed; the operator restarts it later
		run.reach("node_stopped_on_disk_error")
		if ni.node.inc == ni {
			ni.node.inc = nil
		}
		return
	} else if !ni.stopping {
		// a node stopped serving without being asked to and without being removed
		err := ni.serveErr
		if es := errOrNil(err).Error(); strings.Contains(es, "snapshot") || strings.Contains(es, "Log.") {
			// no storage error was injected, yet the node found its own snapshots or log unusable:
			// that is what C09 rules out (compaction and retention never leave a node unable to
			// restart or to bring a follower up to date)
			run.violate("C09", "storage_unusable", "storage_unusable:"+errClass(errOrNil(err)), "%v gave up with a storage error although none was injected: %v", ni, err)
		}
		run.violate("C15", "node_stopped_itself", "serve_returned:"+errClass(errOrNil(err)), "%v stopped serving on its own: %v", ni, err)
	}
	// every task the node accepted is complete when Serve returns
	for _, tr := range ni.tasks {
		if !isClosed(tr.task.Done()) {
			run.violate("C15", "task_pending_after_serve", "task_pending_after_shutdown:"+tr.kind, "%v: Serve returned (%v) but the %s task submitted at step %d never completed", ni, ni.serveErr, tr.kind, tr.submittedAt)
			return
		}
	}
}

func errOrNil(err error) error {
	if err == nil {
		return fmt.Errorf("nil")
	}
	return err
}

// ---- C16 -------------------------------------------------------------------------------------------

type transferRec2 struct {
	inc      *nodeInc
	term     uint64
	last0    uint64
	accepted bool
	target   uint64
}

func (l *ledgers) onTransferEnter(ni *nodeInc, t transferLdr) {
	ni.obs.xferPending = &transferRec2{inc: ni, term: ni.r.term, last0: ni.r.lastLogIndex, target: t.target}
	ni.obs.xferTask = t.task
}

func (l *ledgers) onTransferExit(ni *nodeInc, ld *leader, t transferLdr) {
	rec := ni.obs.xferPending
	if rec == nil || ni.obs.xferTask != t.task {
		return
	}
	if ld.transfer.inProgress() && ld.transfer.transferLdr.task == t.task {
		rec.accepted = true
		ni.obs.xfer = rec
		l.run.reach("transfer_accepted")
	}
	ni.obs.xferPending = nil
}

func (l *ledgers) checkTransferInProgress(ni *nodeInc) {
	rec := ni.obs.xfer
	if rec == nil {
		return
	}
	r := ni.r
	if r.state != Leader || r.term != rec.term || !r.ldr.transfer.inProgress() {
		ni.obs.xfer = nil
		return
	}
	if r.lastLogIndex != rec.last0 {
		l.run.violate("C16", "log_grew_during_transfer", "entries_accepted_during_transfer", "%v accepted entries while a leadership transfer is in progress: last log index %d -> %d", ni, rec.last0, r.lastLogIndex)
	}
}

func (l *ledgers) onTimeoutNowEnter(ni *nodeInc, req *timeoutNowReq, deadline time.Time) {
	run := l.run
	src := run.node(req.src)
	if src == nil || !src.inc.live() {
		return
	}
	L := src.inc.r
	if L.state != Leader || L.term != req.term || !L.ldr.transfer.inProgress() {
		run.reach("timeout_now_stale")
		return
	}
	if !deadline.Equal(L.ldr.transfer.deadline) {
		// the sending goroutine of an earlier transfer, scheduled late: its designation was made
		// (and judged) then; by now that transfer is over and the request carries an expired deadline
		run.reach("timeout_now_of_earlier_transfer")
		return
	}
	R := ni.r
	if R.term > L.term {
		// the sender has been deposed and does not know yet: whatever it designates is moot
		run.reach("timeout_now_from_deposed_leader")
		return
	}
	run.reach("timeout_now_from_live_leader")
	if !L.configs.Latest.isVoter(R.nid) {
		run.violate("C16", "successor_not_voter", "successor_not_voter", "leader %v designated %v as successor, which is no voter in the leader's configuration %v", src.inc, ni, L.configs.Latest)
		return
	}
	ok := R.lastLogIndex >= L.lastLogIndex
	if ok {
		if R.lastLogIndex == L.lastLogIndex {
			ok = R.lastLogTerm == L.lastLogTerm
		} else if L.lastLogIndex > R.snaps.index {
			t, err := R.storage.getEntryTerm(L.lastLogIndex)
			ok = err == nil && t == L.lastLogTerm
		}
	}
	if !ok {
		run.violate("C16", "successor_log_behind", "successor_log_behind", "leader %v (last %d,%d) designated %v (last %d,%d) as successor, whose log lacks entries the leader accepted", src.inc, L.lastLogIndex, L.lastLogTerm, ni, R.lastLogIndex, R.lastLogTerm)
	}
}

// ---- C17 stability clause ------------------------------------------------------------------------------

func (l *ledgers) onAppendHandled(ni *nodeInc, req *appendReq, result rpcResult) {
	if result == staleTerm || result == readErr {
		return
	}
	ni.obs.heardLeader = req.src
	ni.obs.heardTerm = req.term
	ni.obs.heardAt = l.run.sim.Now
}

func (l *ledgers) onVoteEnterStability(ni *nodeInc, req *voteReq) {
	ni.obs.voteTermBefore = ni.r.term
}

func (l *ledgers) onVoteExitStability(ni *nodeInc, req *voteReq, result rpcResult) {
	run := l.run
	o := &ni.obs
	L := o.heardLeader
	// the flag in the request is the sender's claim; the permission is what a leader gave it
	if req.transfer && !l.x.permitted[[2]uint64{req.src, req.term}] {
		run.reach("transfer_flag_without_permission")
	}
	if (req.transfer && l.x.permitted[[2]uint64{req.src, req.term}]) || L == 0 || req.src == L || o.heardTerm != o.voteTermBefore {
		return
	}
	// less than one minimum election timeout ago on the voter's own clock
	elapsed := run.sim.Now - o.heardAt
	local := elapsed + elapsed/1000000*ni.nc.ClockPPM
	if local >= int64(run.cfg.HB) {
		return
	}
	// None of the legitimate reasons to forget the leader happened recently. A closed
	// connection is noticed by the voter some time after it was closed (FIN in flight,
	// the server goroutine's read, the queue to the raft goroutine), so the clause is
	// evaluated only in calm moments: nothing of the kind within two election timeouts.
	calm := run.sim.Now - 2*int64(run.cfg.HB)
	if c, ok := l.x.lastClose[[2]int{int(L), int(ni.node.id)}]; ok && c >= calm {
		return
	}
	if o.lastTimeoutNow >= calm || o.lastConfigChange >= calm || o.lastElectionTimeout >= calm || ni.startedAt >= calm {
		return
	}
	ln := run.node(L)
	if ln == nil || !ln.inc.live() {
		return
	}
	run.reach("stability_clause_evaluated")
	if result == success || ni.r.term != o.voteTermBefore {
		// how did the voter come to forget (or ignore) the leader it had just heard from?
		cause := "leader_still_known"
		if o.followerTimeoutAt >= o.heardAt {
			cause = "election_timer_fired"
		} else if o.leaderClearedAt >= o.heardAt {
			cause = "disconnect_notification"
		}
		run.violate("C17", "leader_disrupted", "vote_disrupts_live_leader:"+cause, "%v heard from leader %d (term %d) %v ago (%s since), yet a vote request of node %d for term %d without transfer permission was answered %d and its term went %d -> %d",
			ni, L, o.heardTerm, time.Duration(local), cause, req.src, req.term, result, o.voteTermBefore, ni.r.term)
	}
}

// ---- C19 ---------------------------------------------------------------------------------------------

func (l *ledgers) checkIdleStatus(ni *nodeInc) {
	run := l.run
	r := ni.r
	o := &ni.obs
	applied := r.fsm.index
	if applied < o.applied && applied >= r.snaps.index {
		run.violate("C19", "applied_decreased", "applied_decreased", "%v: last applied went from %d to %d", ni, o.applied, applied)
		return
	}
	o.applied = applied
	prev, last, snap := r.log.PrevIndex(), r.lastLogIndex, r.snaps.index
	if !(prev <= snap && snap <= last) {
		run.violate("C19", "snapshot_outside_log", "first-1<=snapshot<=last", "%v: first log index %d, snapshot index %d, last log index %d", ni, prev+1, snap, last)
		return
	}
	if r.commitIndex > last {
		run.violate("C19", "commit_beyond_log", "commit>last", "%v: commit index %d beyond last log index %d", ni, r.commitIndex, last)
		return
	}
	if r.configs.Committed.Index > r.configs.Latest.Index {
		run.violate("C19", "config_order", "committed_config>latest_config", "%v: committed configuration index %d, latest %d", ni, r.configs.Committed.Index, r.configs.Latest.Index)
		return
	}
	// latest is the newest configuration entry of log or snapshot
	if o.cfgCheckedAt != last || o.cfgCheckedPrev != prev || o.cfgCheckedSnap != snap {
		o.cfgCheckedAt, o.cfgCheckedPrev, o.cfgCheckedSnap = last, prev, snap
		if c := configFromLog(r); c != nil && c.Index != r.configs.Latest.Index {
			run.violate("C19", "latest_config_wrong", "latest_config!=newest_entry", "%v: latest configuration has index %d, the newest configuration entry in its log/snapshot has index %d", ni, r.configs.Latest.Index, c.Index)
		}
	}
}

func (l *ledgers) onInfo(ni *nodeInc, info Info) {
	run := l.run
	run.reach("status_report")
	if info.LastApplied > info.Committed || info.Committed > info.LastLogIndex {
		run.violate("C19", "report_order", "report:applied<=commit<=last", "%v reports lastApplied=%d committed=%d lastLogIndex=%d", ni, info.LastApplied, info.Committed, info.LastLogIndex)
		return
	}
	if !(info.FirstLogIndex-1 <= info.SnapshotIndex && info.SnapshotIndex <= info.LastLogIndex) {
		run.violate("C19", "report_snapshot", "report:first-1<=snapshot<=last", "%v reports firstLogIndex=%d snapshotIndex=%d lastLogIndex=%d", ni, info.FirstLogIndex, info.SnapshotIndex, info.LastLogIndex)
		return
	}
	if info.Configs.Committed.Index > info.Configs.Latest.Index {
		run.violate("C19", "report_config", "report:committed_config<=latest", "%v reports committed configuration %d, latest %d", ni, info.Configs.Committed.Index, info.Configs.Latest.Index)
		return
	}
	if p := l.x.infoSeen[ni]; p != nil {
		if info.Term < p.Term || info.Committed < p.Committed || info.LastApplied < p.LastApplied || info.SnapshotIndex < p.SnapshotIndex {
			run.violate("C19", "report_regressed", "report_regressed", "%v: successive reports regress: term %d->%d committed %d->%d applied %d->%d snapshot %d->%d", ni,
				p.Term, info.Term, p.Committed, info.Committed, p.LastApplied, info.LastApplied, p.SnapshotIndex, info.SnapshotIndex)
			return
		}
		if p.State != info.State {
			run.reach("status_report_role_change")
		}
	}
	cp := info
	l.x.infoSeen[ni] = &cp
}

// ---- C07 final history checks ---------------------------------------------------------------------------

func (l *ledgers) checkHistory() {
	run := l.run
	pos := map[uint64]int{} // cmd -> position (1-based) in G
	for i, c := range l.G {
		if p, dup := pos[c]; dup {
			run.violate("C07", "update_applied_twice", "update_twice_in_log", "command %d is committed twice, at positions %d and %d", c, p, i+1)
			return
		}
		pos[c] = i + 1
	}
	prefix := make([]uint64, len(l.G)+1)
	for i, c := range l.G {
		prefix[i+1] = mixHash(prefix[i], c)
	}
	var oks []*opRec
	nOK, nAmb, nDef := 0, 0, 0
	for _, op := range run.ops {
		switch op.Outcome {
		case outOK:
			nOK++
		case outAmbiguous, outUnknown:
			nAmb++
		case outDefinite, outNotSubmitted:
			nDef++
		}
		if op.Kind == opUpdate {
			p, in := pos[op.Cmd]
			switch op.Outcome {
			case outOK:
				if !in {
					run.violate("C07", "acknowledged_update_lost", "ok_update_not_committed", "update %d was acknowledged (position %d) by %v but is not in the committed sequence", op.Cmd, op.Pos, op.inc)
					return
				}
				if uint64(p) != op.Pos {
					run.violate("C07", "update_position_wrong", "ok_update_position", "update %d was acknowledged with result position %d but is at position %d of the committed sequence", op.Cmd, op.Pos, p)
					return
				}
				oks = append(oks, op)
			case outDefinite, outNotSubmitted:
				if in {
					run.violate("C07", "rejected_update_applied", "rejected_update_committed", "update %d was rejected definitively (%s) by %v but is committed at position %d", op.Cmd, op.Err, op.inc, p)
					return
				}
			}
		} else if op.Outcome == outOK && (op.Kind == opRead || op.Kind == opDirty) {
			if op.Pos > uint64(len(l.G)) || prefix[op.Pos] != op.Hash {
				run.violate("C07", "read_exposes_uncommitted", "read_not_a_committed_prefix", "%s on %v returned %d commands (hash %x) which is not a prefix of the committed sequence (%d committed)", op.Kind, op.inc, op.Pos, op.Hash, len(l.G))
				return
			}
		}
	}
	// real-time order of acknowledged updates
	sort.Slice(oks, func(i, j int) bool { return oks[i].Return < oks[j].Return })
	maxPos, maxCmd := 0, uint64(0)
	byInvoke := append([]*opRec(nil), oks...)
	sort.Slice(byInvoke, func(i, j int) bool { return byInvoke[i].Invoke < byInvoke[j].Invoke })
	j := 0
	for _, u2 := range byInvoke {
		for j < len(oks) && oks[j].Return < u2.Invoke {
			if p := pos[oks[j].Cmd]; p > maxPos {
				maxPos, maxCmd = p, oks[j].Cmd
			}
			j++
		}
		if pos[u2.Cmd] < maxPos {
			run.violate("C07", "realtime_order", "completed_update_ordered_after_later_one", "update %d completed before update %d was submitted, yet it is committed after it (positions %d and %d)", maxCmd, u2.Cmd, maxPos, pos[u2.Cmd])
			return
		}
	}
	// a leader read reflects every update the same incarnation had completed before it
	for _, rd := range run.ops {
		if rd.Kind != opRead || rd.Outcome != outOK {
			continue
		}
		for _, u := range oks {
			if u.inc == rd.inc && u.Return < rd.Invoke && uint64(pos[u.Cmd]) > rd.Pos {
				run.violate("C07", "stale_leader_read", "read_misses_completed_update", "read on %v returned %d commands although update %d (position %d) had completed on the same node before the read was submitted", rd.inc, rd.Pos, u.Cmd, pos[u.Cmd])
				return
			}
		}
	}
	run.histStats = [3]int{nOK, nAmb, nDef}
}

// ---- C15: tasks and shutdown ----------------------------------------------------------------------------------

func (l *ledgers) checkTasksAtEnd() {
	run := l.run
	for _, n := range run.nodes {
		for _, ni := range n.incs {
			if ni.dead {
				continue
			}
			for _, tr := range ni.tasks {
				if !isClosed(tr.task.Done()) {
					run.violate("C15", "task_never_completed", "task_never_completed:"+tr.kind, "%v: the %s task submitted at step %d never completed", ni, tr.kind, tr.submittedAt)
					return
				}
			}
		}
	}
	// a task completes once: the outcome its submitter saw is still its outcome
	for _, op := range run.ops {
		if op.Outcome != outOK || op.inc.dead || op.task == nil {
			continue
		}
		if op.task.Err() != nil {
			run.violate("C15", "task_completed_twice", "task_result_changed", "%s task on %v was acknowledged with success and now reports %v: it was completed twice", op.Kind, op.inc, op.task.Err())
			return
		}
	}
}

func (run *simRun) shutdownWatch() {
	if run.stop || run.phase != "shutdown" {
		return
	}
	if run.sim.Now-run.shutdownAt > 300*int64(run.cfg.HB) {
		desc := ""
		for _, n := range run.nodes {
			if n.inc != nil && !n.inc.exited && !n.inc.dead {
				desc += fmt.Sprintf("  %v still serving\n", n.inc)
			}
		}
		if desc != "" {
			run.violate("C15", "shutdown_stuck", "shutdown_does_not_finish", "Shutdown did not finish within %v of simulated time:\n%s%s", 300*run.cfg.HB, desc, run.sim.Describe())
		} else {
			// only fenced incarnations (crashed earlier, left to unwind) are still busy: a killed
			// process has no such afterlife, so nothing is concluded from it and the run is complete
			run.st.Reach["zombie_never_unwound"]++
			run.finishNow = true
		}
		return
	}
	run.sim.After(10*int64(run.cfg.HB), "shutdown-watch", run.shutdownWatch)
}

// ---- C20: identity isolation and storage exclusivity ---------------------------------------------------

const handshakeLen = 1 + 8 + 8 + 8 + 8 // rpc type, term, src, cid, nid

// handshakeOf decodes the identity a dialer named in its first request.
func handshakeOf(c *simnet.Conn) (cid, nid uint64, ok bool) {
	h := c.Head
	if len(h) < handshakeLen || h[0] != byte(rpcIdentity) {
		return 0, 0, false
	}
	return byteOrder.Uint64(h[17:25]), byteOrder.Uint64(h[25:33]), true
}

// checkRequestIdentity: every request a node processes arrived on a connection
// whose handshake named exactly this node.
func (l *ledgers) checkRequestIdentity(r *Raft, req request, c *conn) {
	run := l.run
	ni := run.raftOf[r]
	if ni == nil || ni.dead {
		return
	}
	sc, ok := c.rwc.(*simnet.Conn)
	if !ok || sc.Peer == nil {
		return
	}
	cid, nid, ok := handshakeOf(sc.Peer)
	run.reach("request_identity_checked")
	if !ok {
		run.violate("C20", "request_without_handshake", "request_without_handshake", "%v processed %T on a connection whose first request was no identity handshake", ni, req)
		return
	}
	if cid != r.cid || nid != r.nid {
		from := "?"
		if sc.Peer.NC == nil {
		} else if d, _ := sc.Peer.NC.User.(*nodeInc); d != nil {
			from = fmt.Sprintf("cluster %x node %d", d.node.cid, d.node.id)
		}
		run.violate("C20", "request_for_other_identity", "foreign_request_processed", "cluster %x node %d processed %T from %s, who had dialled it as cluster %x node %d", r.cid, r.nid, req, from, cid, nid)
	}
}

// checkConnIdentities: a dialer that was told it reached somebody else sends nothing more.
func (l *ledgers) checkConnIdentities() {
	run := l.run
	for _, c := range run.net.Conns {
		if !c.Dialer || c.Peer == nil {
			continue
		}
		cid, nid, ok := handshakeOf(c)
		if !ok {
			continue
		}
		if c.Peer.NC == nil {
			continue
		}
		acc, _ := c.Peer.NC.User.(*nodeInc)
		if acc == nil {
			continue
		}
		if cid == acc.node.cid && nid == acc.node.id {
			continue
		}
		run.reach("handshake_at_wrong_node")
		if c.Sent > handshakeLen {
			run.violate("C20", "traffic_after_identity_mismatch", "traffic_after_mismatch", "a node that dialled cluster %x node %d reached cluster %x node %d and still sent %d bytes after the handshake", cid, nid, acc.node.cid, acc.node.id, c.Sent-handshakeLen)
			return
		}
	}
}

func (l *ledgers) onSetIdentityAttempt(ni *nodeInc, err error) {
	run := l.run
	run.reach("set_identity_attempt")
	// The statement is that the identity cannot be changed, so the oracle looks at the stored
	// identity. (SetIdentity's return value is not part of it: the deferred unlock overwrites
	// the function's result, so it reports nil even when it refused; noted in DESIGN 12.)
	_ = err
	ids, _ := filepath.Glob(filepath.Join(ni.dir, "*.id"))
	want := fmt.Sprintf("%d-%d.id", ni.node.cid, ni.node.id)
	if len(ids) != 1 || filepath.Base(ids[0]) != want {
		run.violate("C20", "identity_changed", "identity_file_changed", "after a refused SetIdentity the directory of %v holds identity files %v, want %s", ni, ids, want)
	}
}

func (l *ledgers) onIntruder(ni *nodeInc, firstServing bool, stage string, err error) {
	run := l.run
	run.reach("second_instance_attempt")
	if ni.dead || ni.exited || !firstServing || ni.closing() {
		// the first instance went away meanwhile, or is on its way out: Serve gives the lock back
		// after its goroutines have finished and before it returns, so a second instance may
		// legitimately get in while the first is still "running" in the harness's books
		return
	}
	switch stage {
	case "serving":
		run.violate("C20", "two_instances", "two_instances_serve_one_directory", "a second Raft instance is serving the storage directory of %v while %v is still running", ni, ni)
	case "serve":
		if err != ErrLockExists && !ni.dead && !ni.exited && ni.locked() {
			run.violate("C20", "second_instance_wrong_error", "second_serve_not_refused", "Serve of a second instance on the directory of %v returned %v, want ErrLockExists", ni, err)
		}
	}
}

// ---- status monitor goroutine (C19), runs on an uninstrumented helper via admin.submit -------------------------

var _ = rt.StPlan
