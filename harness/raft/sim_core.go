//go:build verif && go1.20

package raft

import (
	"fmt"
	"io"
	"os"
	"path/filepath"
	"sort"
	"strings"
	"syscall"
	"time"

	"verif.local/sim/rt"
	"verif.local/sim/simioutil"
	"verif.local/sim/simnet"
	"verif.local/sim/simos"
	"verif.local/sim/simtime"
	"verif.local/sim/simunix"
)

const simCID = 0xC1

type violation struct {
	Prop   string `json:"property"`
	Oracle string `json:"oracle"`
	Sig    string `json:"signature"`
	Msg    string `json:"message"`
	Step   uint64 `json:"step"`
	SimNS  int64  `json:"sim_ns"`
}

type simNode struct {
	id    uint64
	cid   uint64
	decoy bool // member of the second cluster (C20 profile): runs real code, only identity oracles apply
	addr  string
	inc   *nodeInc // running incarnation, nil when down
	incs  []*nodeInc
	dir   string // directory the next incarnation starts from
	wiped int
	// what the node had acknowledged, across incarnations (C05/C10)
	maxTermSeen   uint64
	ackedIndex    uint64 // highest log index acknowledged as stored by the incarnation that crashed last
	ackedTerm     uint64
	ackedMaxEver  uint64 // highest index any incarnation of this node ever acknowledged
	tampered      bool   // a second instance opened this node's directory while it was served (C20 profile)
	lastCrashAtIO bool
}

type nodeInc struct {
	run              *simRun
	node             *simNode
	n                int
	nc               *rt.NodeCtx
	r                *Raft
	fsm              *recFSM
	dir              string
	mainG            *rt.G
	listener         *simnet.Listener
	newErr           error
	serveErr         error
	exited           bool
	dead             bool // crashed (fenced) — a zombie from now on
	stopping         bool // Shutdown requested by the harness
	tasks            []*taskRec
	obs              incObs
	acked, ackedTerm uint64        // highest (index,term) this incarnation acknowledged as stored and still holds
	ackedMax         uint64        // highest index this incarnation ever acknowledged (never lowered)
	pendPrev, pendN  uint64        // append request in progress
	gone             chan struct{} // closed when the incarnation's main goroutine has returned
	diskErrs         int           // disk errors injected into this incarnation
	obsBroken        bool
	intruder         *Raft // a second instance currently attempting to serve this directory (C20)
	crashAtIO        int   // >0: crash when this many more I/O calls were made by this incarnation
	ioCount          int
	startedAt        int64
}

func (ni *nodeInc) String() string { return fmt.Sprintf("n%d.%d", ni.node.id, ni.n) }

// live: running, not crashed, New succeeded
func (ni *nodeInc) live() bool { return ni != nil && !ni.dead && !ni.exited && ni.r != nil }

// closing: the node has begun to shut down (on request, or because it failed): its
// in-memory state is being torn down and is no longer observed.
func (ni *nodeInc) closing() bool {
	select {
	case <-ni.r.close:
		return true
	default:
		return false
	}
}

// locked: the lock file of the directory exists, i.e. the instance is past lockDir and before unlockDir.
func (ni *nodeInc) locked() bool {
	_, err := os.Stat(filepath.Join(ni.dir, "lock"))
	return err == nil
}

// consistent: the raft goroutine is parked where storage and volatile state
// are mutually consistent (not inside a file or lock operation).
func (ni *nodeInc) consistent() bool {
	g := ni.mainG
	if g == nil || ni.r == nil {
		return false
	}
	switch g.State() {
	case rt.GParked, rt.GBlocked, rt.GWaiting:
	default:
		return false
	}
	switch rt.SiteKind(g.Site) {
	case rt.KRecv, rt.KSend, rt.KSelect, rt.KNet, rt.KClose, rt.KGo:
		return true
	}
	return false
}

// idle: the raft goroutine sits in the main select of stateLoop.
func (ni *nodeInc) idle() bool {
	return ni.consistent() && ni.mainG.Site == ni.run.mainSelectSite
}

type simRun struct {
	seed           uint64
	prof           profile
	cfg            runConfig
	sim            *rt.Sim
	tape           *rt.Tape
	net            *simnet.Network
	nodes          []*simNode
	baseDir        string
	raftOf         map[*Raft]*nodeInc
	phase          string
	stop           bool
	viol           *violation
	infra          string
	decoys         []*simNode
	clients        []*client
	nextCmd        uint64
	ops            []*opRec
	links          map[[2]int]bool // blocked directed links
	mainSelectSite uint32

	led ledgers
	st  runStats

	c06Every   int
	c06Seq     int
	digests    map[uint64]struct{}
	lastDigest uint64
	histStats  [3]int
	target     string // property the check is deciding ("": stop at the first violation of any)
	incid      []*violation
	dbgOn      bool
	dbgF       func(string)

	shutdownAt  int64
	healedAt    int64
	finishNow   bool // shutdown phase: only fenced incarnations are left, end the run
	settleStart int64
	doneClients int
	admins      int
}

type runStats struct {
	Faults map[string]int `json:"faults"`
	Reach  map[string]int `json:"reach"`
}

func (run *simRun) fault(kind string)  { run.st.Faults[kind]++ }
func (run *simRun) reach(probe string) { run.st.Reach[probe]++ }

func (run *simRun) violate(prop, oracle, sig, format string, a ...interface{}) {
	if run.viol != nil {
		return
	}
	run.tape.Frozen++
	defer func() { run.tape.Frozen-- }()
	if run.prof.DiskErr > 0 {
		// with storage errors injected only the safety core is demanded (DESIGN 4): a node may
		// stop, refuse work or report odd status, it must not break election safety, committed
		// entries, state-machine agreement, log matching, votes or restartability
		switch prop {
		case "C01", "C02", "C03", "C04", "C05", "C10":
		default:
			run.st.Reach["ignored_under_disk_errors:"+prop]++
			return
		}
	}
	if run.target != "" && prop != run.target && oracle != "panic" && oracle != "deadlock" && prop != "C17" {
		// a check decides its own property: violations of other properties are recorded
		// (once per signature) and the run goes on, so that the property's own symptoms
		// are still reached when another symptom of the same defect comes first
		for _, v := range run.incid {
			if v.Prop == prop && v.Sig == sig {
				return
			}
		}
		if len(run.incid) < 8 {
			run.incid = append(run.incid, &violation{prop, oracle, sig, fmt.Sprintf(format, a...), run.sim.Steps, run.sim.Now})
		}
		return
	}
	run.viol = &violation{prop, oracle, sig, fmt.Sprintf(format, a...), run.sim.Steps, run.sim.Now}
	run.stop = true
}

type dbgLogger struct {
	run *simRun
	id  uint64
}

func (l dbgLogger) Info(v ...interface{}) { l.run.dbg("n%d INFO %v", l.id, v) }
func (l dbgLogger) Warn(v ...interface{}) { l.run.dbg("n%d WARN %v", l.id, v) }

func (run *simRun) simOptions() Options {
	c := run.cfg
	return Options{
		HeartbeatTimeout:  c.HB,
		PromoteThreshold:  c.PromoteThr,
		SnapshotInterval:  c.SnapInterval,
		SnapshotThreshold: c.SnapThresh,
		ShutdownOnRemove:  true,
		Bandwidth:         run.bandwidth(),
		LogSegmentSize:    c.SegSize,
		SnapshotsRetain:   c.SnapRetain,
	}
}

// bandwidth: what the operator may promise the library given the simulated
// network (window / worst one-way latency, halved for safety). Promising more
// than the network delivers makes large transfers time out forever, which is a
// deployment error and not a fault.
func (run *simRun) bandwidth() int64 {
	lat := int64(run.cfg.LatBase + run.cfg.LatJitter)
	if lat < 1000 {
		lat = 1000
	}
	bw := int64(run.cfg.MaxBuf) * int64(time.Second) / lat / 4
	if bw > 256*1024 {
		bw = 256 * 1024
	}
	if bw < 1024 {
		bw = 1024
	}
	return bw
}

func nodeAddr(id uint64) string { return fmt.Sprintf("n%d:7000", id) }

func (run *simRun) node(id uint64) *simNode {
	if id == 0 || int(id) > len(run.nodes) {
		return nil
	}
	return run.nodes[id-1]
}

func (run *simRun) liveIncs() []*nodeInc {
	var out []*nodeInc
	for _, n := range run.nodes {
		if n.inc.live() {
			out = append(out, n.inc)
		}
	}
	return out
}

// ---- setup ---------------------------------------------------------------------

func newSimRun(seed uint64, prof profile, tape *rt.Tape, quiesce func()) *simRun {
	run := &simRun{seed: seed, prof: prof, tape: tape, raftOf: map[*Raft]*nodeInc{}, links: map[[2]int]bool{}}
	run.digests = map[uint64]struct{}{}
	run.st.Faults = map[string]int{}
	run.st.Reach = map[string]int{}
	run.cfg = drawConfig(tape, prof)
	run.c06Every = prof.C06Every
	run.sim = rt.NewSim(tape, quiesce)
	run.sim.StepCost = int64(run.cfg.StepCost)
	run.sim.ContNum, run.sim.ContDen = run.cfg.ContNum, run.cfg.ContNum+1
	run.sim.LagEvery, run.sim.LagSkipNum, run.sim.LagSkipDen = run.cfg.LagEvery, 7, 8
	run.sim.SiteName = func(s uint32) string {
		if si, ok := simSites[s]; ok {
			return fmt.Sprintf("%s:%d(%s %s)", si.File, si.Line, si.Kind, si.Func)
		}
		return fmt.Sprintf("kind%d", rt.SiteKind(s))
	}
	for id, si := range simSites {
		if si.Func == "Raft.stateLoop" && si.Kind == "select" {
			run.mainSelectSite = id
		}
	}
	if run.mainSelectSite == 0 {
		run.infra = "main select of stateLoop not found in site table"
	}
	run.net = simnet.New(run.sim)
	run.net.MaxBuf = run.cfg.MaxBuf
	run.net.LinkUp = func(from, to int) bool { return !run.links[[2]int{from, to}] }
	run.net.Latency = func(from, to int) int64 {
		l := int64(run.cfg.LatBase)
		if j := int64(run.cfg.LatJitter); j > 0 {
			l += int64(tape.Choose(rt.StNet, 8)) * j / 8
		}
		return l
	}
	switch run.cfg.ChunkMode {
	case 1:
		run.net.Chunk = func(n int) int {
			if n <= 1 || !tape.Chance(rt.StNet, 1, 3) {
				return n
			}
			return 1 + tape.Choose(rt.StNet, n)
		}
	case 2:
		run.net.Chunk = func(n int) int {
			if n <= 1 || !tape.Chance(rt.StNet, 2, 3) {
				return n
			}
			return 1 + tape.Choose(rt.StNet, 24)
		}
	}
	if prof.Misroute > 0 {
		run.net.Route = func(from *rt.NodeCtx, addr string) *simnet.Listener {
			l := run.net.Listeners[addr]
			if run.phase == "chaos" && tape.Chance(rt.StNet, prof.Misroute, 1000) {
				// the dial ends up at some other node's listener (address mix-up, reuse, resolver answer)
				var addrs []string
				for a := range run.net.Listeners {
					addrs = append(addrs, a)
				}
				sort.Strings(addrs)
				if len(addrs) > 0 {
					o := run.net.Listeners[addrs[tape.Choose(rt.StNet, len(addrs))]]
					if o != l {
						run.fault("misroute")
						return o
					}
				}
			}
			return l
		}
	}
	run.led.init(run)
	run.net.OnClose = func(c *simnet.Conn) {
		if c.NC != nil && c.Peer != nil && c.Peer.NC != nil {
			run.led.x.lastClose[[2]int{c.NC.ID, c.Peer.NC.ID}] = run.sim.Now
			run.led.x.lastClose[[2]int{c.Peer.NC.ID, c.NC.ID}] = run.sim.Now
		}
	}
	return run
}

func (run *simRun) setup() {
	run.baseDir = filepath.Join("/dev/shm", fmt.Sprintf("verif-%d", os.Getpid()), fmt.Sprintf("r%x", run.seed))
	_ = os.RemoveAll(run.baseDir)
	if err := os.MkdirAll(run.baseDir, 0700); err != nil {
		run.infra = err.Error()
		return
	}
	simioutil.ResetTemp()
	n := run.cfg.Voters + run.cfg.Nonvoters + run.cfg.Spares
	for i := 1; i <= n; i++ {
		node := &simNode{id: uint64(i), cid: simCID, addr: nodeAddr(uint64(i))}
		node.dir = filepath.Join(run.baseDir, fmt.Sprintf("n%d-0", i))
		_ = os.MkdirAll(node.dir, 0700)
		run.nodes = append(run.nodes, node)
	}
	boot := run.bootConfig()
	for i, node := range run.nodes {
		if run.cfg.Preseed && i > 0 && i < run.cfg.Voters+run.cfg.Nonvoters {
			// identical bootstrap entry everywhere: copy the first node's storage, then give it its own identity
			if err := copyDir(run.nodes[0].dir, node.dir); err != nil {
				run.infra = "preseed copy: " + err.Error()
				return
			}
			ids, _ := filepath.Glob(filepath.Join(node.dir, "*.id"))
			for _, f := range ids {
				_ = os.Remove(f)
			}
		}
		if err := SetIdentity(node.dir, simCID, node.id); err != nil {
			run.infra = "SetIdentity: " + err.Error()
			return
		}
		if run.cfg.Preseed && i == 0 {
			store, err := openStorage(node.dir, run.simOptions())
			if err == nil {
				err = store.bootstrap(boot.clone())
			}
			if err == nil {
				err = store.log.Close()
			}
			if err != nil {
				run.infra = "preseed: " + err.Error()
				return
			}
		}
	}
	simos.Hook = run.ioHook
	simunix.Hook = func(op string, b []byte) error { return run.ioHook(op, "") }
	rt.ProbeFn = run.probe
	run.installTracer()
	for _, node := range run.nodes {
		run.startNode(node)
	}
	if run.prof.TwoClusters {
		run.setupDecoys()
	}
	run.phase = "chaos"
	if !run.cfg.Preseed {
		run.spawnAdmin("bootstrap", func(a *admin) { a.bootstrap(boot) })
	}
	for i := 0; i < run.cfg.Clients; i++ {
		run.startClient(i)
	}
	run.spawnAdmin("monitor", func(a *admin) { a.monitor() })
	run.sim.After(int64(run.cfg.TickEvery), "tick", run.tick)
	run.sim.After(int64(run.cfg.ChaosLen), "heal", run.heal)
}

// setupDecoys starts a second, independent cluster with its own cluster id and
// overlapping node ids on the same simulated network (C20).
func (run *simRun) setupDecoys() {
	nb := 1 + run.tape.Choose(rt.StConfig, 3)
	shareAddrs := run.tape.Chance(rt.StConfig, 1, 2)
	conf := Config{Nodes: map[uint64]Node{}, Index: 1, Term: 1}
	for i := 1; i <= nb; i++ {
		id := uint64(i)
		addr := fmt.Sprintf("b%d:7000", i)
		conf.Nodes[id] = Node{ID: id, Addr: addr, Voter: true}
	}
	if shareAddrs && nb >= 2 {
		// the other cluster believes that one of its members lives at an address of ours
		n := conf.Nodes[uint64(nb)]
		n.Addr = nodeAddr(uint64(1 + run.tape.Choose(rt.StConfig, len(run.nodes))))
		conf.Nodes[uint64(nb)] = n
		run.reach("decoy_config_points_at_our_address")
	}
	var first string
	for i := 1; i <= nb; i++ {
		node := &simNode{id: uint64(i), cid: simCID + 1, decoy: true, addr: fmt.Sprintf("b%d:7000", i)}
		node.dir = filepath.Join(run.baseDir, fmt.Sprintf("b%d-0", i))
		_ = os.MkdirAll(node.dir, 0700)
		if i > 1 {
			_ = copyDir(first, node.dir)
			ids, _ := filepath.Glob(filepath.Join(node.dir, "*.id"))
			for _, f := range ids {
				_ = os.Remove(f)
			}
		}
		if err := SetIdentity(node.dir, node.cid, node.id); err != nil {
			run.infra = "decoy identity: " + err.Error()
			return
		}
		if i == 1 {
			first = node.dir
			st, err := openStorage(node.dir, run.simOptions())
			if err == nil {
				err = st.bootstrap(conf.clone())
			}
			if err == nil {
				err = st.log.Close()
			}
			if err != nil {
				run.infra = "decoy bootstrap: " + err.Error()
				return
			}
		}
		run.decoys = append(run.decoys, node)
	}
	for _, node := range run.decoys {
		run.startNode(node)
	}
}

// bootConfig: all voters plus non-voters in one stable configuration.
func (run *simRun) bootConfig() Config {
	c := Config{Nodes: map[uint64]Node{}, Index: 1, Term: 1}
	for i := 1; i <= run.cfg.Voters+run.cfg.Nonvoters; i++ {
		id := uint64(i)
		c.Nodes[id] = Node{ID: id, Addr: nodeAddr(id), Voter: i <= run.cfg.Voters}
	}
	return c
}

func (run *simRun) startNode(node *simNode) *nodeInc {
	ni := &nodeInc{run: run, node: node, n: len(node.incs), dir: node.dir, startedAt: run.sim.Now, gone: make(chan struct{})}
	ppm := int64(0)
	if int(node.id) < len(run.cfg.ClockPPM) {
		ppm = run.cfg.ClockPPM[node.id]
	}
	ncID := int(node.id)
	if node.decoy {
		ncID = 100 + int(node.id)
	}
	ni.nc = &rt.NodeCtx{ID: ncID, Inc: ni.n, ClockPPM: ppm, ClockOff: int64(ncID) * 3600e9, User: ni}
	ni.fsm = &recFSM{inc: ni}
	if old, ok := run.net.Listeners[node.addr]; ok {
		_ = old.CloseNow() // left by an incarnation that never got to serve
	}
	l, err := run.net.Listen(ni.nc, node.addr)
	if err != nil {
		run.infra = "listen: " + err.Error()
		return nil
	}
	ni.listener = l
	node.incs = append(node.incs, ni)
	node.inc = ni
	ni.mainG = run.sim.Spawn("raft", ni.nc, ni.main)
	return ni
}

// ---- crash / restart -----------------------------------------------------------------

func copyDir(src, dst string) error {
	return filepath.Walk(src, func(p string, info os.FileInfo, err error) error {
		if err != nil {
			return err
		}
		rel, _ := filepath.Rel(src, p)
		target := filepath.Join(dst, rel)
		if info.IsDir() {
			return os.MkdirAll(target, 0700)
		}
		base := filepath.Base(p)
		if rel == "lock" || (strings.HasPrefix(base, "lock") && strings.HasSuffix(base, ".tmp") && filepath.Dir(rel) == ".") {
			return nil // the operator removes the stale lock of a killed process
		}
		in, err := os.Open(p)
		if err != nil {
			return err
		}
		defer in.Close()
		out, err := os.OpenFile(target, os.O_WRONLY|os.O_CREATE|os.O_TRUNC, 0600)
		if err != nil {
			return err
		}
		_, err = io.Copy(out, in)
		if e := out.Close(); err == nil {
			err = e
		}
		return err
	})
}

// crash kills the running incarnation of node at this very instant: the
// directory image is taken now, the old incarnation is fenced and left to
// unwind on its abandoned directory.
func (run *simRun) crash(ni *nodeInc, why string) {
	if ni == nil || ni.dead || ni.exited {
		return
	}
	node := ni.node
	image := filepath.Join(run.baseDir, fmt.Sprintf("n%d-%d", node.id, len(node.incs)))
	if err := copyDir(ni.dir, image); err != nil {
		run.infra = "image: " + err.Error()
		run.stop = true
		return
	}
	run.fault("crash:" + why)
	node.ackedIndex, node.ackedTerm = ni.acked, ni.ackedTerm
	node.lastCrashAtIO = why == "io"
	ni.dead = true
	ni.nc.Dead = true
	ni.nc.Stalled = false
	node.dir = image
	node.inc = nil
	run.net.CrashNode(ni.nc, run.cfg.NotifyCrash)
	run.led.onCrash(ni, image)
	run.sim.Spawn("zombie", ni.nc, ni.unwind)
}

func (run *simRun) restart(node *simNode) {
	if node.inc != nil {
		return
	}
	run.fault("restart")
	run.startNode(node)
}

// ioHook runs in the context of the goroutine performing a file operation,
// before the operation.
func (run *simRun) ioHook(op, path string) error {
	g := run.sim.Cur()
	if g == nil || g.NC == nil {
		return nil
	}
	ni, _ := g.NC.User.(*nodeInc)
	if ni == nil || ni.dead {
		return nil
	}
	ni.ioCount++
	if run.prof.DiskErr > 0 && run.phase == "chaos" {
		switch op {
		case "create", "open", "write", "truncate", "rename", "fsync", "msync", "mkdir", "link", "mmap":
			if run.tape.Chance(rt.StDisk, run.prof.DiskErr, 10000) {
				ni.diskErrs++
				run.fault("disk_error:" + op)
				var e error = syscall.ENOSPC
				if run.tape.Chance(rt.StDisk, 1, 2) {
					e = syscall.EIO
				}
				if op == "write" && run.tape.Chance(rt.StDisk, 1, 2) {
					run.fault("torn_write")
					return simos.Short{Err: e}
				}
				return e
			}
		}
	}
	if ni.crashAtIO > 0 {
		ni.crashAtIO--
		if ni.crashAtIO == 0 {
			run.reach("crash_at_io:" + op)
			run.crash(ni, "io")
			return nil
		}
	}
	// a slow disk: the call takes simulated time, during which the other goroutines of the
	// node (and everybody else) go on. Only while faults are being injected.
	if run.cfg.SlowIO > 0 && run.phase == "chaos" && run.tape.Chance(rt.StDisk, run.cfg.SlowIO, 1000) {
		d := int64(run.cfg.SlowIOMax) * int64(1+run.tape.Choose(rt.StDisk, 8)) / 8
		run.fault("slow_io")
		simtime.Sleep(simtime.Duration(d))
	}
	return nil
}

// ---- partitions ----------------------------------------------------------------------

func (run *simRun) setLink(from, to int, blocked bool) {
	if blocked {
		run.links[[2]int{from, to}] = true
	} else {
		delete(run.links, [2]int{from, to})
	}
}

func (run *simRun) healAll() {
	for k := range run.links {
		delete(run.links, k)
	}
	run.net.Kick()
}

// ---- director: faults and admin actions during chaos ---------------------------------------

func (run *simRun) tick() {
	if run.phase != "chaos" || run.stop {
		return
	}
	run.sim.After(int64(run.cfg.TickEvery), "tick", run.tick)
	p := run.prof
	t := run.tape
	weights := []int{p.Partition, p.Heal, p.Crash, p.Restart, p.Stall, p.ConnReset, p.ConnStall, p.Transfer, p.Member, p.Snapshot, p.WipeNonvoter, p.Intruder}
	total := 0
	for _, w := range weights {
		total += w
	}
	if total == 0 || !t.Chance(rt.StPlan, total, 1000+total) {
		return
	}
	k := t.Choose(rt.StPlan, total)
	which := 0
	for i, w := range weights {
		if k < w {
			which = i
			break
		}
		k -= w
	}
	switch which {
	case 0:
		run.doPartition()
	case 1:
		if len(run.links) > 0 {
			run.fault("heal")
			run.healAll()
		}
	case 2:
		run.doCrash()
	case 3:
		run.doRestart()
	case 4:
		run.doStall()
	case 5:
		run.doConnReset()
	case 6:
		run.doConnStall()
	case 7:
		run.spawnAdmin("transfer", func(a *admin) { a.transfer() })
	case 8:
		run.spawnAdmin("member", func(a *admin) { a.member() })
	case 9:
		run.spawnAdmin("snapshot", func(a *admin) { a.snapshot() })
	case 10:
		run.doWipeNonvoter()
	case 11:
		run.spawnAdmin("intruder", func(a *admin) { a.intruder() })
	}
}

func (run *simRun) leaderInc() *nodeInc {
	for _, ni := range run.liveIncs() {
		if ni.r.state == Leader {
			return ni
		}
	}
	return nil
}

// pickNode chooses a node, biased towards the current leader.
func (run *simRun) pickNode(live bool) *simNode {
	var cands []*simNode
	for _, n := range run.nodes {
		if live == (n.inc != nil) {
			cands = append(cands, n)
		}
	}
	if len(cands) == 0 {
		return nil
	}
	if live {
		if l := run.leaderInc(); l != nil && run.tape.Chance(rt.StPlan, 1, 2) {
			return l.node
		}
	}
	return cands[run.tape.Choose(rt.StPlan, len(cands))]
}

func (run *simRun) doPartition() {
	n := len(run.nodes)
	if n < 2 {
		return
	}
	t := run.tape
	oneway := t.Chance(rt.StPlan, 1, 4)
	var side []bool
	if t.Chance(rt.StPlan, 1, 2) {
		// isolate one node (leader-biased)
		v := run.pickNode(true)
		if v == nil {
			return
		}
		side = make([]bool, n+1)
		side[v.id] = true
	} else {
		side = make([]bool, n+1)
		for i := 1; i <= n; i++ {
			side[i] = t.Chance(rt.StPlan, 1, 2)
		}
	}
	cnt := 0
	for i := 1; i <= n; i++ {
		for j := 1; j <= n; j++ {
			if i != j && side[i] != side[j] {
				if oneway && side[i] {
					continue
				}
				run.setLink(i, j, true)
				cnt++
			}
		}
	}
	if cnt > 0 {
		if oneway {
			run.fault("partition_oneway")
		} else {
			run.fault("partition")
		}
	}
}

func (run *simRun) doCrash() {
	v := run.pickNode(true)
	if v == nil || v.inc == nil {
		return
	}
	// keep a majority of nodes alive most of the time so the run makes progress
	down := 0
	for _, n := range run.nodes {
		if n.inc == nil {
			down++
		}
	}
	if down >= (len(run.nodes)+1)/2 && !run.tape.Chance(rt.StPlan, 1, 5) {
		return
	}
	if run.tape.Chance(rt.StDisk, 2, 3) {
		// crash inside the victim's upcoming file operations
		v.inc.crashAtIO = 1 + run.tape.Choose(rt.StDisk, 40)
		run.fault("crash_armed")
		return
	}
	run.crash(v.inc, "step")
}

func (run *simRun) doRestart() {
	v := run.pickNode(false)
	if v == nil {
		return
	}
	run.restart(v)
}

func (run *simRun) doStall() {
	v := run.pickNode(true)
	if v == nil || v.inc == nil || v.inc.nc.Stalled {
		return
	}
	ni := v.inc
	d := int64(run.cfg.HB) * int64(1+run.tape.Choose(rt.StPlan, 6)) / 2
	ni.nc.Stalled = true
	run.fault("stall")
	run.sim.After(d, "unstall", func() { ni.nc.Stalled = false })
}

func (run *simRun) openConns() []*simnet.Conn {
	var out []*simnet.Conn
	for _, c := range run.net.Conns {
		if c.Dialer && !c.Closed() && !c.Broken() {
			out = append(out, c)
		}
	}
	return out
}

func (run *simRun) doConnReset() {
	cs := run.openConns()
	if len(cs) == 0 {
		return
	}
	c := cs[run.tape.Choose(rt.StPlan, len(cs))]
	if run.tape.Chance(rt.StPlan, 1, 4) {
		run.fault("conn_reset_halfopen")
		c.ResetLocal()
	} else {
		run.fault("conn_reset")
		c.Reset()
	}
}

func (run *simRun) doConnStall() {
	cs := run.openConns()
	if len(cs) == 0 {
		return
	}
	c := cs[run.tape.Choose(rt.StPlan, len(cs))]
	if run.tape.Chance(rt.StPlan, 1, 2) {
		c = c.Peer
	}
	run.fault("conn_blackhole")
	c.BlackHole = true
}

func (run *simRun) doWipeNonvoter() {
	// a non-voter that lost its disk comes back empty under the same identity
	for _, n := range run.nodes {
		if n.inc != nil || n.wiped > 0 {
			continue
		}
		isVoterAnywhere := false
		for _, ni := range run.liveIncs() {
			if ni.consistent() && ni.r.configs.Latest.isVoter(n.id) {
				isVoterAnywhere = true
			}
		}
		if isVoterAnywhere || run.led.everVoter[n.id] {
			continue
		}
		dir := filepath.Join(run.baseDir, fmt.Sprintf("n%d-wiped%d", n.id, len(n.incs)))
		_ = os.MkdirAll(dir, 0700)
		if err := SetIdentity(dir, simCID, n.id); err != nil {
			run.infra = "wipe: " + err.Error()
			return
		}
		n.dir = dir
		n.wiped++
		run.led.onWipe(n)
		run.fault("wipe_nonvoter")
		run.startNode(n)
		return
	}
}

// ---- heal / settle / shutdown ---------------------------------------------------------------

func (run *simRun) heal() {
	if run.stop {
		return
	}
	run.phase = "settle"
	run.healAll()
	for _, c := range run.net.Conns {
		if c.BlackHole && !c.Closed() && !c.Broken() {
			// a black hole never heals by itself: the connection dies
			c.Reset()
		}
	}
	for _, n := range run.nodes {
		if n.inc != nil && n.inc.exited && !n.inc.dead && n.inc.serveErr == ErrNodeRemoved {
			// a node that shut itself down as removed, but is a member again in the newest
			// committed configuration (removed and added again while it lagged): the operator who
			// added it again starts it again
			if c := run.led.configAtIndex(run.led.upto); c != nil {
				if _, member := c.Nodes[n.id]; member {
					run.reach("restart_of_readded_node")
					n.inc = nil
				}
			}
		}
		if n.inc != nil {
			n.inc.nc.Stalled = false
			n.inc.crashAtIO = 0
		} else {
			run.startNode(n)
		}
	}
	run.healedAt = run.sim.Now
	run.sim.FairBound = 2000
	if run.sim.Lags > 0 {
		run.st.Faults["laggard_goroutines"] += run.sim.Lags
	}
	run.sim.LagEvery = 0 // fair scheduling from here on
	run.led.onHeal()
	run.sim.After(int64(run.cfg.HB), "settle-check", run.settleCheck)
}

func (run *simRun) beginShutdown() {
	if run.phase == "shutdown" || run.phase == "done" {
		return
	}
	run.phase = "shutdown"
	run.shutdownAt = run.sim.Now
	run.sim.After(10*int64(run.cfg.HB), "shutdown-watch", run.shutdownWatch)
	for _, n := range append(append([]*simNode(nil), run.nodes...), run.decoys...) {
		if n.inc != nil && !n.inc.exited {
			ni := n.inc
			ni.stopping = true
			run.sim.Spawn("shutdown", ni.nc, ni.shutdown)
		}
	}
}

// ---- step loop -------------------------------------------------------------------------------

func (run *simRun) loop() {
	idleStreak := 0
	for !run.stop {
		res := run.sim.Step()
		if res == rt.StepInfra {
			run.infra = run.sim.InfraErr()
			return
		}
		if len(run.sim.Panics) > 0 {
			run.onPanic()
			if run.stop {
				return
			}
		}
		run.afterStep()
		if run.stop {
			return
		}
		if run.phase == "shutdown" && (len(run.sim.Live()) == 0 || run.finishNow) {
			run.phase = "done"
			run.finalChecks()
			return
		}
		if res == rt.StepIdle {
			idleStreak++
			if idleStreak > 2 {
				run.onStuck()
				return
			}
		} else {
			idleStreak = 0
		}
		if run.sim.Steps > 30_000_000 {
			run.infra = fmt.Sprintf("step budget exhausted in phase %s; %s\ntail:", run.phase, run.sim.Describe())
			for _, e := range run.sim.Tail(30) {
				run.infra += fmt.Sprintf("\n %d t=%d %c %d %s %s", e.Step, e.Now, e.Kind, e.ID, run.sim.SiteName(e.Site), e.Name)
			}
			return
		}
	}
}

func (run *simRun) onPanic() {
	for _, p := range run.sim.Panics {
		var ni *nodeInc
		if p.G.NC != nil {
			ni, _ = p.G.NC.User.(*nodeInc)
		}
		if ni != nil && ni.dead {
			continue // a fenced incarnation unwinding on an abandoned directory
		}
		msg := fmt.Sprint(p.Value)
		if err, ok := p.Value.(error); ok {
			msg = err.Error()
		}
		if ni != nil && ni.diskErrs > 0 {
			// a storage error was injected into this process: dying of it is outside C15
			// ("in the absence of storage errors"); the process is gone, as after a crash
			run.reach("process_died_of_disk_error")
			run.crash(ni, "diskerr")
			continue
		}
		if strings.HasPrefix(msg, "rt:") || strings.HasPrefix(msg, "simharness:") {
			run.infra = "panic in simulator: " + msg + "\n" + p.Stack
			run.stop = true
			return
		}
		site := panicSite(p.Stack)
		sig := "panic:" + site + ":" + firstLine(msg)
		who := "harness"
		if ni != nil {
			who = ni.String()
		}
		unmapped := strings.HasPrefix(site, "log.(") && strings.Contains(msg, "invalid memory address")
		if unmapped {
			// whose read was it? a replication goroutine (or its pipeline writer) of a node that
			// has been removed from the configuration is no longer looked at by compaction
			for g := p.G; g != nil; g = g.Parent {
				if repl, ok := g.User.(*replication); ok {
					if repl.status.removed {
						site += ":replication_of_removed_node"
					}
					break
				}
			}
			sig = "panic:" + site + ":" + firstLine(msg)
		}
		if run.target == "C09" && unmapped {
			// a read through a log view whose segment has been unmapped: compaction or an
			// installed snapshot invalidated log data somebody was still reading
			run.violate("C09", "unmapped_log_read", "unmapped_log_read:"+site, "goroutine %v of %s read log memory that had been unmapped: %s\n%s", p.G, who, msg, trimStack(p.Stack))
			continue
		}
		if ls := strings.ToLower(site); run.target == "C16" && (strings.Contains(ls, "transfer") || strings.Contains(ls, "timeoutnow")) {
			// the node died in the code that runs a leadership transfer: the transfer neither
			// completed nor failed with an error that leaves the cluster as it was
			run.violate("C16", "transfer_kills_node", "transfer_panic:"+site, "goroutine %v of %s panicked in the transfer code: %s\n%s", p.G, who, msg, trimStack(p.Stack))
			continue
		}
		run.violate("C15", "panic", sig, "goroutine %v of %s panicked: %s\n%s", p.G, who, msg, trimStack(p.Stack))
	}
	run.sim.Panics = nil
}

func firstLine(s string) string {
	if i := strings.IndexByte(s, '\n'); i >= 0 {
		s = s[:i]
	}
	if len(s) > 120 {
		s = s[:120]
	}
	return s
}

// panicSite extracts the innermost frame of the code under test below the
// original panic (function name without arguments).
func panicSite(stack string) string {
	lines := strings.Split(stack, "\n")
	lastPanic := -1
	for i, l := range lines {
		if strings.HasPrefix(l, "panic(") {
			lastPanic = i
		}
	}
	for i := lastPanic + 1; i < len(lines); i++ {
		l := lines[i]
		if strings.HasPrefix(l, "\t") || !strings.Contains(l, "santhosh-tekuri/raft") {
			continue
		}
		if j := strings.LastIndexByte(l, '('); j > 0 {
			l = l[:j]
		}
		if j := strings.LastIndexByte(l, '/'); j >= 0 {
			l = l[j+1:]
		}
		if strings.Contains(l, "recoverErr") {
			continue
		}
		return l
	}
	return "?"
}

func trimStack(s string) string {
	lines := strings.Split(s, "\n")
	if len(lines) > 40 {
		lines = lines[:40]
	}
	return strings.Join(lines, "\n")
}

func (run *simRun) onStuck() {
	live := run.sim.Live()
	if len(live) == 0 {
		if run.phase != "done" {
			run.infra = "all goroutines finished in phase " + run.phase
		}
		return
	}
	desc := run.sim.Describe()
	if run.phase == "shutdown" {
		// every node has returned from Serve (or was fenced): what is left are goroutines the
		// nodes leaked, blocked for good. That is no property of the list; the run is complete.
		leftover := true
		for _, g := range live {
			ni, _ := func() (*nodeInc, bool) {
				if g.NC == nil {
					return nil, false
				}
				n, ok := g.NC.User.(*nodeInc)
				return n, ok
			}()
			if ni == nil || !(ni.dead || ni.exited) {
				leftover = false
			}
		}
		if leftover {
			run.st.Reach["leaked_goroutines"] += len(live)
			run.phase = "done"
			run.finalChecks()
			return
		}
	}
	// a stuck state with live (non-fenced) node goroutines is a deadlock of the system under test
	for _, g := range live {
		if g.NC != nil && !g.NC.Dead {
			run.violate("C15", "deadlock", "deadlock:"+run.sim.SiteName(g.Site), "no goroutine can run and no event is pending in phase %s:\n%s", run.phase, desc)
			return
		}
	}
	run.infra = "stuck with only harness/zombie goroutines:\n" + desc
}

func (run *simRun) cleanup() {
	simos.Hook = nil
	simunix.Hook = nil
	rt.ProbeFn = nil
	tracer = struct {
		error               func(err error)
		stateChanged        func(r *Raft)
		leaderChanged       func(r *Raft)
		electionStarted     func(r *Raft)
		electionAborted     func(r *Raft, reason string)
		commitReady         func(r *Raft)
		configChanged       func(r *Raft)
		configCommitted     func(r *Raft)
		configReverted      func(r *Raft)
		roundCompleted      func(r *Raft, id uint64, round round)
		logCompacted        func(r *Raft)
		configActionStarted func(r *Raft, id uint64, action Action)
		unreachable         func(r *Raft, id uint64, since time.Time, err error)
		quorumUnreachable   func(r *Raft, since time.Time)
		shuttingDown        func(r *Raft, reason error)
	}{}
	simunix.ReleaseAll()
	_ = os.RemoveAll(run.baseDir)
	_ = os.Remove(filepath.Dir(run.baseDir)) // the per-process directory, once it is empty
}

func sortedU64(m map[uint64]bool) []uint64 {
	var out []uint64
	for k := range m {
		out = append(out, k)
	}
	sort.Slice(out, func(i, j int) bool { return out[i] < out[j] })
	return out
}
