//go:build verif && go1.20

package raft

import (
	"time"

	"verif.local/sim/rt"
)

// profile weights the fault kinds and workload of a run; the check for each
// property picks the profiles that steer runs towards what it needs. Every
// oracle is active in every profile.
type profile struct {
	Name string
	// per-tick probabilities (out of 1000) of each fault/admin action during chaos
	Partition, Heal, Crash, Restart, Stall, ConnReset, ConnStall int
	Transfer, Member, Snapshot, WipeNonvoter                     int
	DiskErr                                                      int
	MinVoters, MaxVoters, MaxNonvoters                           int
	Clients                                                      int // max clients
	TwoClusters                                                  bool
	Misroute                                                     int // per-mille of dials that end up at another node's listener
	Intruder                                                     int // tick weight: a second instance tries to use a served directory
	TinySegments                                                 bool
	C06Every                                                     int // evaluate the durability oracle at one in so many commit advances (0: never)
	Templates                                                    []string
}

var profiles = map[string]profile{
	"elect": {Name: "elect", Partition: 120, Heal: 120, Crash: 60, Restart: 150, Stall: 80, ConnReset: 60, ConnStall: 40,
		Transfer: 40, Member: 10, MinVoters: 2, MaxVoters: 5, Clients: 2, C06Every: 8},
	"repl": {Name: "repl", Partition: 80, Heal: 120, Crash: 40, Restart: 150, Stall: 50, ConnReset: 60, ConnStall: 60,
		Transfer: 20, Member: 10, Snapshot: 20, MinVoters: 2, MaxVoters: 5, MaxNonvoters: 1, Clients: 6, C06Every: 16},
	"member": {Name: "member", Partition: 50, Heal: 120, Crash: 30, Restart: 150, Stall: 30, ConnReset: 30, ConnStall: 20,
		Transfer: 40, Member: 250, Snapshot: 20, MinVoters: 1, MaxVoters: 4, MaxNonvoters: 2, Clients: 3, C06Every: 3},
	"snap": {Name: "snap", Partition: 60, Heal: 120, Crash: 40, Restart: 150, Stall: 80, ConnReset: 30, ConnStall: 40,
		Transfer: 10, Member: 30, Snapshot: 250, WipeNonvoter: 30, MinVoters: 1, MaxVoters: 4, MaxNonvoters: 2, Clients: 5, TinySegments: true},
	"crash": {Name: "crash", Partition: 40, Heal: 120, Crash: 200, Restart: 250, Stall: 20, ConnReset: 20, ConnStall: 20,
		Transfer: 10, Member: 30, Snapshot: 80, MinVoters: 1, MaxVoters: 4, MaxNonvoters: 1, Clients: 4, TinySegments: true, C06Every: 4},
	"transfer": {Name: "transfer", Partition: 50, Heal: 120, Crash: 30, Restart: 150, Stall: 50, ConnReset: 40, ConnStall: 60,
		Transfer: 300, Member: 60, Snapshot: 10, MinVoters: 2, MaxVoters: 5, MaxNonvoters: 1, Clients: 3},
	"mix": {Name: "mix", Partition: 60, Heal: 120, Crash: 50, Restart: 150, Stall: 40, ConnReset: 40, ConnStall: 30,
		Transfer: 60, Member: 100, Snapshot: 100, WipeNonvoter: 10, MinVoters: 2, MaxVoters: 5, MaxNonvoters: 2, Clients: 5, TinySegments: true},
	"snapmember": {Name: "snapmember", Partition: 40, Heal: 120, Crash: 40, Restart: 150, Stall: 60, ConnReset: 20, ConnStall: 20,
		Transfer: 20, Member: 200, Snapshot: 250, MinVoters: 1, MaxVoters: 4, MaxNonvoters: 2, Clients: 4, TinySegments: true, C06Every: 8},
	"identity": {Name: "identity", Partition: 30, Heal: 120, Crash: 40, Restart: 150, Stall: 20, ConnReset: 60, ConnStall: 10,
		Transfer: 20, Member: 40, Snapshot: 20, MinVoters: 2, MaxVoters: 4, MaxNonvoters: 1, Clients: 3, TwoClusters: true, Misroute: 150, Intruder: 60},
	"diskerr": {Name: "diskerr", Partition: 30, Heal: 120, Crash: 60, Restart: 250, Stall: 20, ConnReset: 20, ConnStall: 10,
		Transfer: 10, Member: 20, Snapshot: 100, DiskErr: 30, MinVoters: 1, MaxVoters: 4, MaxNonvoters: 1, Clients: 4, TinySegments: true, C06Every: 8},
	"calm": {Name: "calm", MinVoters: 1, MaxVoters: 5, MaxNonvoters: 1, Clients: 4, Snapshot: 30, Member: 30, Transfer: 30},
}

// runConfig is the swarm configuration of one run, drawn from the tape's
// configuration stream before anything else.
type runConfig struct {
	Profile      string
	Voters       int
	Nonvoters    int
	Spares       int  // nodes that run but are not in the bootstrap configuration
	Preseed      bool // bootstrap by pre-seeded storage instead of a ChangeConfig on one node
	HB           time.Duration
	PromoteThr   time.Duration
	SegSize      int
	SnapInterval time.Duration
	SnapThresh   uint64
	SnapRetain   int
	LatBase      time.Duration
	LatJitter    time.Duration
	ChunkMode    int // 0 whole, 1 random, 2 tiny
	StepCost     time.Duration
	ClockPPM     []int64
	Clients      int
	ChaosLen     time.Duration
	TickEvery    time.Duration
	ContNum      int
	PadMax       int
	SlowFSM      int // per-mille chance that an FSM call takes simulated time
	NotifyCrash  bool
	MaxBuf       int
	LagEvery     int           // one goroutine in so many is a laggard for the scheduler (0: none)
	SlowIO       int           // per-mille chance that a file-system or mmap call takes simulated time
	SlowIOMax    time.Duration // at most this long
}

func pick[T any](t *rt.Tape, opts ...T) T { return opts[t.Choose(rt.StConfig, len(opts))] }

func drawConfig(t *rt.Tape, p profile) runConfig {
	c := runConfig{Profile: p.Name}
	c.Voters = t.Range(rt.StConfig, p.MinVoters, p.MaxVoters)
	c.Nonvoters = t.Range(rt.StConfig, 0, p.MaxNonvoters)
	if p.Member > 0 {
		c.Spares = t.Range(rt.StConfig, 0, 2)
	}
	c.Preseed = t.Chance(rt.StConfig, 1, 2)
	c.HB = pick(t, 200*time.Millisecond, 50*time.Millisecond, 100*time.Millisecond, 500*time.Millisecond, time.Second)
	c.PromoteThr = pick(t, c.HB, c.HB/4, 4*c.HB)
	if p.TinySegments {
		c.SegSize = pick(t, 1024, 2048, 4096)
	} else {
		c.SegSize = pick(t, 4096, 1024, 2048, 8192, 65536)
	}
	c.SnapInterval = pick(t, 0, 0, 10*c.HB, 30*c.HB)
	if p.Snapshot == 0 {
		c.SnapInterval = 0
	}
	c.SnapThresh = uint64(pick(t, 1, 5, 20, 100))
	c.SnapRetain = pick(t, 1, 2, 3)
	// one-way latency stays below HB/16 so that a fresh connection (three round
	// trips) fits into the shortest election timeout: anything slower is a
	// deployment in which the protocol cannot work, not a fault
	c.LatBase = pick(t, c.HB/200, c.HB/2000, c.HB/40, c.HB/20)
	c.LatJitter = pick(t, c.LatBase, 0, 4*c.LatBase)
	if c.LatBase+c.LatJitter > c.HB/16 {
		c.LatJitter = c.HB/16 - c.LatBase
	}
	c.ChunkMode = pick(t, 0, 0, 1, 1, 2)
	// computation takes simulated time, but a machine has to be fast enough for its
	// heartbeat timeout: at most HB/50000 per scheduling step
	c.StepCost = pick(t, c.HB/200000, 0, c.HB/1000000, c.HB/50000)
	n := c.Voters + c.Nonvoters + c.Spares
	for i := 0; i < n+2; i++ {
		c.ClockPPM = append(c.ClockPPM, int64(t.Range(rt.StConfig, 0, 20)-10)*5000)
	}
	c.Clients = t.Range(rt.StConfig, 1, p.Clients)
	c.ChaosLen = time.Duration(pick(t, 40, 20, 80, 150)) * c.HB
	c.TickEvery = c.HB / time.Duration(pick(t, 2, 1, 4, 8))
	c.ContNum = pick(t, 3, 1, 7, 15)
	c.PadMax = pick(t, 16, 0, 64, 300, c.SegSize/2)
	c.SlowFSM = pick(t, 0, 0, 50, 300)
	c.NotifyCrash = t.Chance(rt.StConfig, 2, 3)
	c.MaxBuf = pick(t, 256<<10, 4<<10, 64<<10)
	c.LagEvery = pick(t, 0, 0, 6, 12, 25)
	c.SlowIO = pick(t, 0, 0, 10, 50, 200)
	c.SlowIOMax = pick(t, c.HB/40, c.HB/200, c.HB/10, c.HB/4)
	return c
}
