#!/bin/bash
# usage: check.sh <property id> <tier>
export GOFLAGS=-mod=mod GOPROXY=off GOSUMDB=off GOTOOLCHAIN=local
if [ ! -x /verif/build/bin/check ]; then /verif/setup.sh >/dev/null 2>&1 || { echo "setup failed" >&2; exit 2; }; fi
exec /verif/build/bin/check "$1" --tier "${2:-${VERIF_TIER:-quick}}"
