// Package simos stands in for package os in instrumented code. Files are real
// (on tmpfs); every call is a scheduling point, a crash point and an
// error-injection point.
package simos

import (
	"os"

	"verif.local/sim/rt"
)

type FileMode = os.FileMode
type FileInfo = os.FileInfo
type PathError = os.PathError

const (
	O_RDONLY = os.O_RDONLY
	O_WRONLY = os.O_WRONLY
	O_RDWR   = os.O_RDWR
	O_APPEND = os.O_APPEND
	O_CREATE = os.O_CREATE
	O_EXCL   = os.O_EXCL
	O_SYNC   = os.O_SYNC
	O_TRUNC  = os.O_TRUNC

	ModePerm = os.ModePerm
	ModeDir  = os.ModeDir
)

var (
	ErrNotExist = os.ErrNotExist
	ErrExist    = os.ErrExist
)

// Hook is called (in the calling goroutine's context, after the scheduling
// point and before the real operation) for every file-system call. A non-nil
// result is returned to the caller instead of performing the operation.
// The harness uses it to count I/O boundaries, to crash a node at the k-th
// one, and to inject disk errors.
var Hook func(op, path string) error

// Short, returned by Hook for a write, makes the facade perform the first half
// of the write and then fail with Err (a torn write).
type Short struct{ Err error }

func (s Short) Error() string { return s.Err.Error() }

// After is called after a successful fsync of a file.
var After func(op, path string)

// Pid is what Getpid reports under simulation.
var Pid = 4242

func pre(op, path string) error {
	if rt.PassThrough {
		return nil
	}
	rt.Point(rt.KIO << 24)
	if Hook != nil {
		return Hook(op, path)
	}
	return nil
}

type File struct {
	f *os.File
}

// Real exposes the underlying file to other facades.
func (f *File) Real() *os.File { return f.f }

func wrap(f *os.File, err error) (*File, error) {
	if err != nil {
		return nil, err
	}
	return &File{f}, nil
}

func OpenFile(name string, flag int, perm FileMode) (*File, error) {
	if err := pre("open", name); err != nil {
		return nil, &os.PathError{Op: "open", Path: name, Err: err}
	}
	return wrap(os.OpenFile(name, flag, perm))
}

func Open(name string) (*File, error) {
	if err := pre("open", name); err != nil {
		return nil, &os.PathError{Op: "open", Path: name, Err: err}
	}
	return wrap(os.Open(name))
}

func Create(name string) (*File, error) {
	if err := pre("create", name); err != nil {
		return nil, &os.PathError{Op: "open", Path: name, Err: err}
	}
	return wrap(os.Create(name))
}

// NewFileFrom wraps a real file (used by simioutil.TempFile).
func NewFileFrom(f *os.File) *File { return &File{f} }

func (f *File) Name() string { return f.f.Name() }
func (f *File) Fd() uintptr  { return f.f.Fd() }

func (f *File) Close() error {
	if err := pre("close", f.f.Name()); err != nil {
		_ = f.f.Close()
		return err
	}
	return f.f.Close()
}

func (f *File) Sync() error {
	if err := pre("fsync", f.f.Name()); err != nil {
		return err
	}
	err := f.f.Sync()
	if err == nil && After != nil && !rt.PassThrough {
		After("fsync", f.f.Name())
	}
	return err
}

func (f *File) Stat() (FileInfo, error) {
	if err := pre("fstat", f.f.Name()); err != nil {
		return nil, err
	}
	return f.f.Stat()
}

func (f *File) Truncate(size int64) error {
	if err := pre("truncate", f.f.Name()); err != nil {
		return err
	}
	return f.f.Truncate(size)
}

func (f *File) WriteAt(b []byte, off int64) (int, error) {
	if err := pre("write", f.f.Name()); err != nil {
		if sh, ok := err.(Short); ok {
			n, _ := f.f.WriteAt(b[:len(b)/2], off)
			return n, sh.Err
		}
		return 0, err
	}
	return f.f.WriteAt(b, off)
}

func (f *File) Write(b []byte) (int, error) {
	if err := pre("write", f.f.Name()); err != nil {
		if sh, ok := err.(Short); ok {
			n, _ := f.f.Write(b[:len(b)/2])
			return n, sh.Err
		}
		return 0, err
	}
	return f.f.Write(b)
}

func (f *File) WriteString(s string) (int, error) { return f.Write([]byte(s)) }

func (f *File) Read(b []byte) (int, error) {
	if err := pre("read", f.f.Name()); err != nil {
		return 0, err
	}
	return f.f.Read(b)
}

func (f *File) ReadAt(b []byte, off int64) (int, error) {
	if err := pre("read", f.f.Name()); err != nil {
		return 0, err
	}
	return f.f.ReadAt(b, off)
}

func (f *File) Seek(offset int64, whence int) (int64, error) { return f.f.Seek(offset, whence) }

func Stat(name string) (FileInfo, error) {
	if err := pre("stat", name); err != nil {
		return nil, &os.PathError{Op: "stat", Path: name, Err: err}
	}
	return os.Stat(name)
}

func Lstat(name string) (FileInfo, error) {
	if err := pre("stat", name); err != nil {
		return nil, &os.PathError{Op: "lstat", Path: name, Err: err}
	}
	return os.Lstat(name)
}

func Remove(name string) error {
	if err := pre("remove", name); err != nil {
		return &os.PathError{Op: "remove", Path: name, Err: err}
	}
	err := os.Remove(name)
	if err == nil && After != nil && !rt.PassThrough {
		After("remove", name)
	}
	return err
}

func RemoveAll(name string) error {
	if err := pre("remove", name); err != nil {
		return &os.PathError{Op: "remove", Path: name, Err: err}
	}
	return os.RemoveAll(name)
}

func Rename(oldpath, newpath string) error {
	if err := pre("rename", oldpath); err != nil {
		return &os.LinkError{Op: "rename", Old: oldpath, New: newpath, Err: err}
	}
	return os.Rename(oldpath, newpath)
}

func Link(oldname, newname string) error {
	if err := pre("link", newname); err != nil {
		return &os.LinkError{Op: "link", Old: oldname, New: newname, Err: err}
	}
	return os.Link(oldname, newname)
}

func MkdirAll(path string, perm FileMode) error {
	if err := pre("mkdir", path); err != nil {
		return &os.PathError{Op: "mkdir", Path: path, Err: err}
	}
	return os.MkdirAll(path, perm)
}

func Mkdir(path string, perm FileMode) error {
	if err := pre("mkdir", path); err != nil {
		return &os.PathError{Op: "mkdir", Path: path, Err: err}
	}
	return os.Mkdir(path, perm)
}

func SameFile(fi1, fi2 FileInfo) bool { return os.SameFile(fi1, fi2) }
func IsExist(err error) bool          { return os.IsExist(err) }
func IsNotExist(err error) bool       { return os.IsNotExist(err) }

func Getpid() int {
	if rt.PassThrough {
		return os.Getpid()
	}
	return Pid
}

func Getenv(k string) string { return os.Getenv(k) }
