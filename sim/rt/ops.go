package rt

import (
	"fmt"
	"reflect"
	"sort"
)

// Recv replaces `<-c`.
func Recv[T any](c <-chan T, site uint32) T {
	if PassThrough {
		return <-c
	}
	Point(site)
	select {
	case v := <-c:
		return v
	default:
	}
	g := BeginBlock(site)
	v := <-c
	EndBlock(g)
	return v
}

// Recv2 replaces `v, ok := <-c`.
func Recv2[T any](c <-chan T, site uint32) (T, bool) {
	if PassThrough {
		v, ok := <-c
		return v, ok
	}
	Point(site)
	select {
	case v, ok := <-c:
		return v, ok
	default:
	}
	g := BeginBlock(site)
	v, ok := <-c
	EndBlock(g)
	return v, ok
}

// Close replaces close(c).
func Close[T any](c chan<- T, site uint32) {
	if !PassThrough {
		Point(site)
	}
	close(c)
}

// Zero yields a typed zero of the channel's element type.
func Zero[T any](c <-chan T) (z T) { return }

// ZeroS is Zero for send-only or bidirectional channels used in sends.
func ZeroK[K comparable, V any](m map[K]V) (z K) { return }
func ZeroV[K comparable, V any](m map[K]V) (z V) { return }

// Kinds of permutation requests (for statistics only).
const (
	KPermSelect = iota
	KPermMap
)

// Perm returns the order in which the cases of a select are polled. The
// identity permutation is the dull choice.
func Perm(n int) []int {
	p := make([]int, n)
	for i := range p {
		p[i] = i
	}
	if PassThrough || n < 2 {
		if PassThrough && n > 1 {
			// keep Go's behaviour (pseudo-random poll order) out of the
			// picture: a fixed order is one of the legal behaviours
		}
		return p
	}
	t := S.Tape
	// a rotation then an optional swap: few tape cells, every case can be first
	r := t.ChooseBias(StSched, n, 1, 2)
	if r != 0 {
		q := make([]int, n)
		for i := range q {
			q[i] = p[(i+r)%n]
		}
		p = q
	}
	return p
}

// SimOrdered is implemented by map keys that are not basic values.
type SimOrdered interface{ SimOrder() uint64 }

func keyOrd(k interface{}) (uint64, string, bool) {
	switch v := k.(type) {
	case uint64:
		return v, "", true
	case int:
		return uint64(v), "", true
	case string:
		return 0, v, false
	case uint32:
		return uint64(v), "", true
	case uint8:
		return uint64(v), "", true
	case int64:
		return uint64(v), "", true
	case SimOrdered:
		return v.SimOrder(), "", true
	}
	rv := reflect.ValueOf(k)
	switch rv.Kind() {
	case reflect.Uint, reflect.Uint8, reflect.Uint16, reflect.Uint32, reflect.Uint64:
		return rv.Uint(), "", true
	case reflect.Int, reflect.Int8, reflect.Int16, reflect.Int32, reflect.Int64:
		return uint64(rv.Int()), "", true
	case reflect.String:
		return 0, rv.String(), false
	}
	panic(fmt.Sprintf("rt.Keys: map key type %T has no simulator order", k))
}

// Keys returns the keys of m in a simulator-chosen order (ascending = dull).
func Keys[K comparable, V any](m map[K]V, site uint32) []K {
	ks := make([]K, 0, len(m))
	for k := range m {
		ks = append(ks, k)
	}
	if len(ks) < 2 || PassThrough {
		return ks // pass-through: Go's own (random) order is as good as any
	}
	sort.Slice(ks, func(i, j int) bool {
		a, as, an := keyOrd(ks[i])
		b, bs, _ := keyOrd(ks[j])
		if an {
			return a < b
		}
		return as < bs
	})
	r := S.Tape.ChooseBias(StSched, len(ks), 2, 3)
	if r != 0 {
		n := len(ks)
		q := make([]K, n)
		for i := range q {
			q[i] = ks[(i+r)%n]
		}
		ks = q
	}
	return ks
}

// Probe dispatches function probes inserted by simgen to the harness.
var ProbeFn func(name string, args []interface{})

func Probe(name string, args ...interface{}) {
	if ProbeFn != nil && !PassThrough {
		ProbeFn(name, args)
	}
}
