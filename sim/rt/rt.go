// Package rt is the runtime of the deterministic simulator: a cooperative
// scheduler that releases exactly one goroutine at a time, a discrete-event
// clock, and the choice tape from which every decision of a run is drawn.
//
// Concurrency discipline: at any instant at most one registered goroutine (or
// the scheduler itself) executes simulator or application code. A goroutine
// that is woken by somebody else's channel operation parks immediately and
// touches only its own G record before doing so. Therefore no locks are needed
// here and the state at every quiescent point is a function of the previous
// state and the scheduler's choice.
package rt

import (
	"fmt"
	"runtime"
	"runtime/debug"
	"sort"
)

// PassThrough is true when no simulation is installed: every helper then
// behaves exactly like the plain Go construct it replaces and the facades call
// the real packages. Used by the transformer self-test.
var PassThrough = true

// S is the simulation in progress (nil in pass-through mode).
var S *Sim

// Site kinds (top byte of a site id).
const (
	KRecv uint32 = iota + 1
	KSend
	KSelect
	KGo
	KClose
	KMap
	KLock
	KIO
	KTime
	KNet
	KHarness
	KStart
)

func SiteKind(site uint32) uint32 { return site >> 24 }

type GState uint8

const (
	GRunning GState = iota
	GParked         // ready to run
	GWaiting        // on a simulator-level wait queue
	GBlocked        // inside a real channel operation
	GDone
)

func (s GState) String() string {
	return [...]string{"running", "parked", "waiting", "blocked", "done"}[s]
}

// NodeCtx is inherited by every goroutine from its parent; it tells which
// simulated process a goroutine belongs to.
type NodeCtx struct {
	ID       int
	Inc      int
	ClockOff int64 // local = epoch + ClockOff + global*(1e6+ClockPPM)/1e6
	ClockPPM int64
	Stalled  bool // process frozen (SIGSTOP): its goroutines are not scheduled
	Dead     bool // crashed incarnation unwinding; ignored by oracles
	User     interface{}
}

// G is a logical goroutine.
type G struct {
	ID     int
	Name   string
	NC     *NodeCtx
	Parent *G
	state  GState
	Site   uint32
	wake   chan struct{}
	wq     *WaitQ
	Passed int // consecutive steps this ready goroutine was passed over
	Born   uint64
	User   interface{}
	Lag    bool // a laggard: when the scheduler picks it, it is usually passed over once more
}

func (g *G) State() GState { return g.state }

func (g *G) String() string {
	n := -1
	if g.NC != nil {
		n = g.NC.ID
	}
	return fmt.Sprintf("g%d(%s,n%d)", g.ID, g.Name, n)
}

// Event is a scheduler-context action at a simulated instant.
type Event struct {
	At        int64
	Seq       uint64
	Name      string
	Fn        func()
	cancelled bool
	fired     bool
	idx       int
	Passed    int
}

func (e *Event) Cancel() bool {
	if e.fired || e.cancelled {
		return false
	}
	e.cancelled = true
	return true
}
func (e *Event) Fired() bool     { return e.fired }
func (e *Event) Cancelled() bool { return e.cancelled }

type PanicInfo struct {
	G     *G
	Value interface{}
	Stack string
	Step  uint64
}

// LogEntry is one line of the event log.
type LogEntry struct {
	Step uint64
	Now  int64
	Kind byte // 'g' goroutine released, 'e' event fired, 't' time advance
	ID   int
	Site uint32
	Name string
}

type Sim struct {
	Now      int64
	Steps    uint64
	StepCost int64
	ContNum  int // P(continue current) = ContNum/ContDen in generation mode
	ContDen  int
	// laggards: one goroutine in LagEvery (0: none) is created as a laggard; a laggard that is
	// picked is passed over with probability LagSkipNum/LagSkipDen. This gives schedules in which
	// one goroutine falls far behind the others, which uniform choice almost never produces.
	LagEvery   int
	LagSkipNum int
	LagSkipDen int
	Lags       int
	FairBound  int // if >0: a candidate passed over this many times is forced

	Tape    *Tape
	Quiesce func()

	gs     []*G
	nextG  int
	cur    *G
	last   *G
	heap   eventHeap
	due    []*Event
	seq    uint64
	Panics []PanicInfo

	Hash uint64 // running hash of the whole schedule (determinism self-test)

	LogRing  []LogEntry
	logPos   int
	FullLog  func(LogEntry)
	SiteName func(uint32) string

	infraErr string
}

func NewSim(tape *Tape, quiesce func()) *Sim {
	s := &Sim{Tape: tape, Quiesce: quiesce, ContNum: 3, ContDen: 4, Hash: 1469598103934665603}
	s.LogRing = make([]LogEntry, 512)
	return s
}

// Install makes s the current simulation. Uninstall restores pass-through.
func Install(s *Sim) { S = s; PassThrough = false }
func Uninstall()     { S = nil; PassThrough = true }

func (s *Sim) Cur() *G  { return s.cur }
func (s *Sim) Gs() []*G { return s.gs }

// InfraErr is non-empty when the simulator itself detected that it lost
// control (an un-instrumented block); the run must be reported as exit 2.
func (s *Sim) InfraErr() string { return s.infraErr }

func (s *Sim) mix(v uint64) {
	h := s.Hash
	for i := 0; i < 8; i++ {
		h ^= v & 0xff
		h *= 1099511628211
		v >>= 8
	}
	s.Hash = h
}

// Mix folds harness-observed state into the schedule hash.
func (s *Sim) Mix(v uint64) { s.mix(v) }

func (s *Sim) logEv(kind byte, id int, site uint32, name string) {
	e := LogEntry{s.Steps, s.Now, kind, id, site, name}
	s.LogRing[s.logPos%len(s.LogRing)] = e
	s.logPos++
	if s.FullLog != nil {
		s.FullLog(e)
	}
}

// Tail returns the most recent log entries, oldest first.
func (s *Sim) Tail(n int) []LogEntry {
	if n > len(s.LogRing) {
		n = len(s.LogRing)
	}
	if n > s.logPos {
		n = s.logPos
	}
	out := make([]LogEntry, 0, n)
	for i := s.logPos - n; i < s.logPos; i++ {
		out = append(out, s.LogRing[i%len(s.LogRing)])
	}
	return out
}

func (s *Sim) newG(name string, nc *NodeCtx, parent *G, site uint32) *G {
	g := &G{ID: s.nextG, Name: name, NC: nc, Parent: parent, state: GParked, Site: site,
		wake: make(chan struct{}, 1), Born: s.Steps}
	s.nextG++
	s.gs = append(s.gs, g)
	if s.LagEvery > 0 && nc != nil && s.Tape.Chance(StSched, 1, s.LagEvery) {
		g.Lag = true
		s.Lags++
	}
	return g
}

func (s *Sim) runG(g *G, fn func()) {
	<-g.wake
	defer func() {
		if v := recover(); v != nil {
			s.Panics = append(s.Panics, PanicInfo{g, v, string(debug.Stack()), s.Steps})
		}
		g.state = GDone
	}()
	debug.SetPanicOnFault(true)
	fn()
}

// candidateG maps a pick index of step() to the goroutine it denotes (nil for an event).
func (s *Sim) candidateG(idx int, lastReady bool) *G {
	if lastReady {
		if idx == 0 {
			return s.last
		}
		idx--
	}
	if idx < len(s.due) {
		return nil
	}
	idx -= len(s.due)
	for _, g := range s.gs {
		if s.ready(g) && !(lastReady && g == s.last) {
			if idx == 0 {
				return g
			}
			idx--
		}
	}
	return nil
}

// Spawn starts a goroutine from scheduler context (or from a running goroutine).
func (s *Sim) Spawn(name string, nc *NodeCtx, fn func()) *G {
	g := s.newG(name, nc, s.cur, KStart<<24)
	go s.runG(g, fn)
	return g
}

// Go replaces the go statement in instrumented code.
func Go(site uint32, fn func()) {
	if PassThrough {
		go fn()
		return
	}
	s := S
	p := s.cur
	var nc *NodeCtx
	name := "go"
	if p != nil {
		nc = p.NC
	}
	if s.SiteName != nil {
		name = s.SiteName(site)
	}
	g := s.newG(name, nc, p, site)
	go s.runG(g, fn)
}

func (s *Sim) park(g *G) {
	<-g.wake
}

// Point is a scheduling point: the running goroutine parks and the scheduler
// decides who continues.
func Point(site uint32) {
	if PassThrough {
		return
	}
	s := S
	g := s.cur
	if g == nil {
		return // scheduler context (event callbacks, oracles)
	}
	g.Site = site
	g.state = GParked
	s.park(g)
}

// BeginBlock announces that the running goroutine is about to block in a real
// channel operation.
func BeginBlock(site uint32) *G {
	if PassThrough {
		return nil
	}
	g := S.cur
	if g == nil {
		panic("rt: blocking channel operation in scheduler context")
	}
	g.Site = site
	g.state = GBlocked
	return g
}

// EndBlock is called by a goroutine right after its real blocking operation
// completed: it parks before touching anything shared.
func EndBlock(g *G) {
	if g == nil {
		return
	}
	g.state = GParked
	<-g.wake
}

// ---- simulator-level wait queues --------------------------------------------

// WaitQ is a list of goroutines waiting for a simulator-level condition.
type WaitQ struct {
	gs []*G
}

// Wait parks the running goroutine on q until somebody calls Wake.
// The caller re-checks its condition afterwards.
func (q *WaitQ) Wait(site uint32) {
	s := S
	g := s.cur
	if g == nil {
		panic("rt: WaitQ.Wait in scheduler context")
	}
	g.Site = site
	g.state = GWaiting
	g.wq = q
	q.gs = append(q.gs, g)
	s.park(g)
}

// Wake makes every waiter runnable. Callable from the running goroutine or
// from scheduler context.
func (q *WaitQ) Wake() {
	for i, g := range q.gs {
		if g.state == GWaiting && g.wq == q {
			g.state = GParked
			g.wq = nil
		}
		q.gs[i] = nil
	}
	q.gs = q.gs[:0]
}

func (q *WaitQ) Len() int { return len(q.gs) }

// ---- events -------------------------------------------------------------------

type eventHeap []*Event

func (h eventHeap) less(i, j int) bool {
	if h[i].At != h[j].At {
		return h[i].At < h[j].At
	}
	return h[i].Seq < h[j].Seq
}
func (h *eventHeap) push(e *Event) {
	*h = append(*h, e)
	i := len(*h) - 1
	for i > 0 {
		p := (i - 1) / 2
		if !h.less(i, p) {
			break
		}
		(*h)[i], (*h)[p] = (*h)[p], (*h)[i]
		i = p
	}
}
func (h *eventHeap) pop() *Event {
	old := *h
	n := len(old)
	e := old[0]
	old[0] = old[n-1]
	old[n-1] = nil
	*h = old[:n-1]
	i := 0
	for {
		l, r, m := 2*i+1, 2*i+2, i
		if l < n-1 && h.less(l, m) {
			m = l
		}
		if r < n-1 && h.less(r, m) {
			m = r
		}
		if m == i {
			break
		}
		(*h)[i], (*h)[m] = (*h)[m], (*h)[i]
		i = m
	}
	return e
}

// At schedules fn to run in scheduler context at simulated time t (or as soon
// as possible afterwards, the instant being one more scheduling choice).
func (s *Sim) At(t int64, name string, fn func()) *Event {
	if t < s.Now {
		t = s.Now
	}
	s.seq++
	e := &Event{At: t, Seq: s.seq, Name: name, Fn: fn}
	s.heap.push(e)
	return e
}

func (s *Sim) After(d int64, name string, fn func()) *Event { return s.At(s.Now+d, name, fn) }

func (s *Sim) collectDue() {
	for len(s.heap) > 0 && s.heap[0].At <= s.Now {
		e := s.heap.pop()
		if !e.cancelled {
			s.due = append(s.due, e)
		}
	}
}

// NextEventAt returns the time of the earliest pending event, or -1.
func (s *Sim) NextEventAt() int64 {
	for len(s.heap) > 0 && s.heap[0].cancelled {
		s.heap.pop()
	}
	if len(s.heap) == 0 {
		return -1
	}
	return s.heap[0].At
}

// ---- the scheduler ------------------------------------------------------------

type StepResult int

const (
	StepRan   StepResult = iota // something was executed
	StepIdle                    // nothing enabled and no pending event: the system is quiescent
	StepInfra                   // simulator lost control
)

func (s *Sim) ready(g *G) bool {
	return g.state == GParked && (g.NC == nil || !g.NC.Stalled)
}

// Step waits for quiescence and performs one scheduling decision.
func (s *Sim) Step() StepResult {
	r := s.step()
	// everything the action woke has parked again before anybody looks at the state
	s.Quiesce()
	s.cur = nil
	return r
}

func (s *Sim) step() StepResult {
	if s.Steps == 0 {
		s.Quiesce()
	}
	s.cur = nil
	// compact the goroutine table and verify control
	n := 0
	for _, g := range s.gs {
		switch g.state {
		case GDone:
			continue
		case GRunning:
			s.infraErr = fmt.Sprintf("goroutine %v blocked outside the simulator's control at %s", g, s.siteName(g.Site))
			return StepInfra
		}
		s.gs[n] = g
		n++
	}
	for i := n; i < len(s.gs); i++ {
		s.gs[i] = nil
	}
	s.gs = s.gs[:n]

	s.Now += s.StepCost
	s.collectDue()
	// drop cancelled due events
	m := 0
	for _, e := range s.due {
		if !e.cancelled {
			s.due[m] = e
			m++
		}
	}
	s.due = s.due[:m]

	nready := 0
	for _, g := range s.gs {
		if s.ready(g) {
			nready++
		}
	}
	if nready == 0 && len(s.due) == 0 {
		t := s.NextEventAt()
		if t < 0 {
			return StepIdle
		}
		s.Now = t
		s.collectDue()
		s.logEv('t', 0, 0, "")
	}

	// candidates: [last if ready] ++ due events ++ other ready goroutines by id
	total := len(s.due) + nready
	lastReady := s.last != nil && s.ready(s.last)
	var forced = -1
	if s.FairBound > 0 {
		// deterministic starvation bound: oldest over-age candidate wins
		worst := s.FairBound
		idx := 0
		if lastReady {
			idx = 1
		}
		for i, e := range s.due {
			if e.Passed >= worst {
				worst, forced = e.Passed+1, idx+i
			}
		}
		j := idx + len(s.due)
		for _, g := range s.gs {
			if s.ready(g) && g != s.last {
				if g.Passed >= worst {
					worst, forced = g.Passed+1, j
				}
				j++
			}
		}
	}
	var pick int
	if forced >= 0 {
		pick = forced
	} else if total == 1 {
		pick = 0
	} else {
		pick = s.Tape.ChooseBias(StSched, total, s.ContNum, s.ContDen)
		if s.LagEvery > 0 {
			if g := s.candidateG(pick, lastReady); g != nil && g.Lag && s.Tape.Chance(StSched, s.LagSkipNum, s.LagSkipDen) {
				pick = s.Tape.ChooseBias(StSched, total, s.ContNum, s.ContDen)
			}
		}
	}
	s.Steps++

	idx := pick
	if lastReady {
		if idx == 0 {
			s.bumpPassed(s.last, nil)
			s.release(s.last)
			return StepRan
		}
		idx--
	}
	if idx < len(s.due) {
		e := s.due[idx]
		copy(s.due[idx:], s.due[idx+1:])
		s.due = s.due[:len(s.due)-1]
		s.bumpPassed(nil, e)
		e.fired = true
		s.mix(uint64(e.Seq)<<8 | 'e')
		s.logEv('e', int(e.Seq), 0, e.Name)
		e.Fn()
		return StepRan
	}
	idx -= len(s.due)
	for _, g := range s.gs {
		if s.ready(g) && !(lastReady && g == s.last) {
			if idx == 0 {
				s.bumpPassed(g, nil)
				s.release(g)
				return StepRan
			}
			idx--
		}
	}
	s.infraErr = "scheduler: pick out of range"
	return StepInfra
}

func (s *Sim) bumpPassed(pg *G, pe *Event) {
	if s.FairBound <= 0 {
		return
	}
	for _, e := range s.due {
		if e != pe {
			e.Passed++
		}
	}
	for _, g := range s.gs {
		if g == pg {
			g.Passed = 0
		} else if s.ready(g) {
			g.Passed++
		}
	}
}

func (s *Sim) release(g *G) {
	s.mix(uint64(g.ID)<<32 | uint64(g.Site))
	s.logEv('g', g.ID, g.Site, g.Name)
	s.cur = g
	s.last = g
	g.state = GRunning
	g.wake <- struct{}{}
}

func (s *Sim) siteName(site uint32) string {
	if s.SiteName != nil {
		return s.SiteName(site)
	}
	return fmt.Sprintf("site#%x", site)
}

// Live returns the goroutines that have not finished, ordered by id.
func (s *Sim) Live() []*G {
	var out []*G
	for _, g := range s.gs {
		if g.state != GDone {
			out = append(out, g)
		}
	}
	sort.Slice(out, func(i, j int) bool { return out[i].ID < out[j].ID })
	return out
}

// Describe lists live goroutines and where they are (for stuck-state reports).
func (s *Sim) Describe() string {
	out := ""
	for _, g := range s.Live() {
		out += fmt.Sprintf("  %v %v at %s\n", g, g.state, s.siteName(g.Site))
	}
	return out
}

// Gosched is used by harness code on registered goroutines as a plain yield.
func Gosched() { Point(KHarness << 24) }

var _ = runtime.GOOS
