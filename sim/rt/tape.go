package rt

// Choice streams. Keeping them apart makes shrinking effective: the schedule
// stream can be zeroed ("always continue the current goroutine") without
// disturbing the configuration or the fault plan.
const (
	StConfig = iota // swarm configuration of the run
	StPlan          // workload and fault plan
	StSched         // who runs next, select poll order, map order
	StNet           // latencies, chunking
	StDisk          // crash points, disk faults
	StMisc
	NStreams
)

// Tape is the sole source of nondeterminism of a run. In generation mode
// values are drawn from per-stream PRNGs derived from the seed and recorded;
// in replay mode they are read back (past the end, or out of range: 0, the
// dullest option).
type Tape struct {
	Seed    uint64
	Replay  bool
	In      [NStreams][]uint32
	Out     [NStreams][]uint32
	pos     [NStreams]int
	rng     [NStreams]uint64
	NoRec   bool
	Limit   [NStreams]int // replay: cells at or beyond Limit read as 0 (0 = no limit)
	Counted [NStreams]uint64
	// Frozen > 0: choices return 0 and are neither drawn nor recorded. Used
	// around diagnostic formatting, which may run instrumented code (String
	// methods ranging over maps) and must not perturb the run.
	Frozen int
}

func splitmix(x uint64) uint64 {
	x += 0x9e3779b97f4a7c15
	z := x
	z = (z ^ (z >> 30)) * 0xbf58476d1ce4e5b9
	z = (z ^ (z >> 27)) * 0x94d049bb133111eb
	return z ^ (z >> 31)
}

// SplitMix derives the k-th run seed of a batch from the base seed.
func SplitMix(base uint64, k uint64) uint64 { return splitmix(base ^ splitmix(k+1)) }

func NewTape(seed uint64) *Tape {
	t := &Tape{Seed: seed}
	for i := range t.rng {
		t.rng[i] = splitmix(seed + uint64(i)*0x632be59bd9b4e019)
		if t.rng[i] == 0 {
			t.rng[i] = 1
		}
	}
	return t
}

func NewReplayTape(seed uint64, in [NStreams][]uint32) *Tape {
	t := NewTape(seed)
	t.Replay = true
	t.In = in
	return t
}

func (t *Tape) next(st int) uint64 {
	x := t.rng[st]
	x ^= x >> 12
	x ^= x << 25
	x ^= x >> 27
	t.rng[st] = x
	return x * 2685821657736338717
}

func (t *Tape) record(st int, v int) int {
	t.Counted[st]++
	if !t.NoRec {
		t.Out[st] = append(t.Out[st], uint32(v))
	}
	return v
}

func (t *Tape) read(st int, n int) int {
	p := t.pos[st]
	t.pos[st]++
	if p >= len(t.In[st]) || (t.Limit[st] > 0 && p >= t.Limit[st]) {
		return 0
	}
	v := int(t.In[st][p])
	if v >= n {
		return 0
	}
	return v
}

// Choose returns a value in [0,n), uniform in generation mode.
func (t *Tape) Choose(st int, n int) int {
	if n <= 1 || t.Frozen > 0 {
		return 0
	}
	if t.Replay {
		return t.record(st, t.read(st, n))
	}
	return t.record(st, int(t.next(st)%uint64(n)))
}

// ChooseBias returns 0 with probability num/den, else uniform in [1,n).
func (t *Tape) ChooseBias(st int, n int, num, den int) int {
	if n <= 1 || t.Frozen > 0 {
		return 0
	}
	if t.Replay {
		return t.record(st, t.read(st, n))
	}
	if int(t.next(st)%uint64(den)) < num {
		return t.record(st, 0)
	}
	return t.record(st, 1+int(t.next(st)%uint64(n-1)))
}

// Chance is true with probability num/den (false is the dull value).
func (t *Tape) Chance(st int, num, den int) bool {
	if num <= 0 || t.Frozen > 0 {
		return false
	}
	if t.Replay {
		return t.record(st, t.read(st, 2)) == 1
	}
	if int(t.next(st)%uint64(den)) < num {
		return t.record(st, 1) == 1
	}
	return t.record(st, 0) == 1
}

// Range returns a value in [lo,hi].
func (t *Tape) Range(st int, lo, hi int) int {
	if hi <= lo {
		return lo
	}
	return lo + t.Choose(st, hi-lo+1)
}

// Pos reports how many cells of a stream were consumed.
func (t *Tape) Pos(st int) int { return int(t.Counted[st]) }

// Convenience wrappers on the installed simulation.

func Choose(st, n int) int {
	if PassThrough {
		return 0
	}
	return S.Tape.Choose(st, n)
}

func Chance(st, num, den int) bool {
	if PassThrough {
		return false
	}
	return S.Tape.Chance(st, num, den)
}
