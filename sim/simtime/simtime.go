// Package simtime stands in for package time in instrumented code: the same
// names, simulated clock and timers.
package simtime

import (
	"time"

	"verif.local/sim/rt"
)

type Duration = time.Duration
type Time = time.Time
type Month = time.Month

const (
	Nanosecond  = time.Nanosecond
	Microsecond = time.Microsecond
	Millisecond = time.Millisecond
	Second      = time.Second
	Minute      = time.Minute
	Hour        = time.Hour
)

// Epoch of the simulated wall clock.
const epochSec = 1600000000

func Unix(sec, nsec int64) Time { return time.Unix(sec, nsec) }

// LocalNanos converts the global simulated instant to the local clock of nc.
func LocalNanos(nc *rt.NodeCtx, global int64) int64 {
	if nc == nil {
		return global
	}
	return nc.ClockOff + global + global/1000000*nc.ClockPPM
}

// GlobalDur converts a duration measured on nc's clock into global time.
func GlobalDur(nc *rt.NodeCtx, d int64) int64 {
	if nc == nil || nc.ClockPPM == 0 || d <= 0 {
		return d
	}
	// inverse of the rate 1+ppm/1e6, rounded up so a timer never fires early locally
	g := d - d/1000000*nc.ClockPPM
	if g < 1 {
		g = 1
	}
	return g
}

func curNC() *rt.NodeCtx {
	if g := rt.S.Cur(); g != nil {
		return g.NC
	}
	return nil
}

func toTime(local int64) Time { return time.Unix(epochSec, local) }

// ToLocal converts a Time produced by Now back to local nanoseconds.
func ToLocal(t Time) int64 { return t.Sub(time.Unix(epochSec, 0)).Nanoseconds() }

func Now() Time {
	if rt.PassThrough {
		return time.Now()
	}
	return toTime(LocalNanos(curNC(), rt.S.Now))
}

func Since(t Time) Duration { return Now().Sub(t) }

// Timer mirrors time.Timer with the channel semantics a `go 1.13` module gets:
// a buffered channel, a stale value possible after Stop.
type Timer struct {
	C    <-chan Time
	c    chan Time
	real *time.Timer
	ev   *rt.Event
	nc   *rt.NodeCtx
}

func NewTimer(d Duration) *Timer {
	if rt.PassThrough {
		r := time.NewTimer(d)
		return &Timer{C: r.C, real: r}
	}
	rt.Point(rt.KTime << 24)
	c := make(chan Time, 1)
	t := &Timer{C: c, c: c, nc: curNC()}
	t.arm(d)
	return t
}

func (t *Timer) arm(d Duration) {
	s := rt.S
	nc := t.nc
	t.ev = s.After(GlobalDur(nc, int64(d)), "timer", func() {
		select {
		case t.c <- toTime(LocalNanos(nc, s.Now)):
		default:
		}
	})
}

func (t *Timer) Stop() bool {
	if t.real != nil {
		return t.real.Stop()
	}
	rt.Point(rt.KTime << 24)
	if t.ev == nil {
		return false
	}
	return t.ev.Cancel()
}

func (t *Timer) Reset(d Duration) bool {
	if t.real != nil {
		return t.real.Reset(d)
	}
	rt.Point(rt.KTime << 24)
	active := t.ev != nil && t.ev.Cancel()
	t.arm(d)
	return active
}

func After(d Duration) <-chan Time {
	if rt.PassThrough {
		return time.After(d)
	}
	return NewTimer(d).C
}

func AfterFunc(d Duration, f func()) *Timer {
	if rt.PassThrough {
		return &Timer{real: time.AfterFunc(d, f)}
	}
	panic("simtime.AfterFunc: not supported under simulation")
}

var sleepQ rt.WaitQ

// Sleep blocks the calling goroutine for d of its local time.
func Sleep(d Duration) {
	if rt.PassThrough {
		time.Sleep(d)
		return
	}
	if d <= 0 {
		rt.Point(rt.KTime << 24)
		return
	}
	s := rt.S
	done := false
	q := &rt.WaitQ{}
	s.After(GlobalDur(curNC(), int64(d)), "sleep", func() { done = true; q.Wake() })
	for !done {
		q.Wait(rt.KTime << 24)
	}
}
