// Package simnet is the simulated transport: dialer, listeners and net.Conn
// endpoints that keep the contract of a TCP byte stream (reliable, ordered, or
// an error) while the simulator controls latency, chunking, stalls, black
// holes, resets, one-sided closes, refused and timed-out dials and partitions.
package simnet

import (
	"errors"
	"fmt"
	"io"
	"net"
	"time"

	"verif.local/sim/rt"
	"verif.local/sim/simtime"
)

type timeoutErr struct{ op string }

func (e timeoutErr) Error() string   { return "simnet: " + e.op + ": i/o timeout" }
func (e timeoutErr) Timeout() bool   { return true }
func (e timeoutErr) Temporary() bool { return true }

var (
	ErrClosed  = errors.New("simnet: use of closed network connection")
	ErrReset   = errors.New("simnet: connection reset by peer")
	ErrRefused = errors.New("simnet: connection refused")
)

type Addr string

func (a Addr) Network() string { return "tcp" }
func (a Addr) String() string  { return string(a) }

type chunk struct {
	data    []byte
	fin     bool
	readyAt int64
}

// Network is one simulated network shared by all nodes of a run.
type Network struct {
	S         *rt.Sim
	Listeners map[string]*Listener
	Conns     []*Conn // every endpoint ever created, in creation order
	nextID    int

	// Policy, supplied by the harness. All are consulted in scheduler or
	// running-goroutine context and may draw from the tape.
	Route   func(from *rt.NodeCtx, addr string) *Listener // nil: Listeners[addr]
	LinkUp  func(from, to int) bool                       // nil: always up
	Latency func(from, to int) int64                      // nil: 0.2ms
	Chunk   func(n int) int                               // nil: whole buffer
	MaxBuf  int                                           // bytes in flight + undelivered per direction before Write blocks
	OnClose func(c *Conn)                                 // called when an endpoint is closed or reset

	Stats struct {
		Dials, DialRefused, DialTimeout, Accepts uint64
		BytesSent, Chunks, Held, Resets, Fins    uint64
		ReadTimeouts, WriteTimeouts              uint64
	}
}

func New(s *rt.Sim) *Network {
	return &Network{S: s, Listeners: map[string]*Listener{}, MaxBuf: 256 << 10}
}

func nodeID(nc *rt.NodeCtx) int {
	if nc == nil {
		return -1
	}
	return nc.ID
}

func (n *Network) linkUp(from, to int) bool {
	if n.LinkUp == nil {
		return true
	}
	return n.LinkUp(from, to)
}

func (n *Network) latency(from, to int) int64 {
	if n.Latency == nil {
		return 200000
	}
	return n.Latency(from, to)
}

// ---- listener ------------------------------------------------------------------

type Listener struct {
	net    *Network
	addr   string
	NC     *rt.NodeCtx
	queue  []*Conn
	q      rt.WaitQ
	closed bool
}

func (n *Network) Listen(nc *rt.NodeCtx, addr string) (*Listener, error) {
	if l, ok := n.Listeners[addr]; ok && !l.closed {
		return nil, fmt.Errorf("simnet: address %s already in use", addr)
	}
	l := &Listener{net: n, addr: addr, NC: nc}
	n.Listeners[addr] = l
	return l, nil
}

func (l *Listener) Accept() (net.Conn, error) {
	rt.Point(rt.KNet << 24)
	for {
		if l.closed {
			return nil, ErrClosed
		}
		if len(l.queue) > 0 {
			c := l.queue[0]
			l.queue = l.queue[1:]
			l.net.Stats.Accepts++
			return c, nil
		}
		l.q.Wait(rt.KNet << 24)
	}
}

func (l *Listener) Close() error {
	rt.Point(rt.KNet << 24)
	return l.CloseNow()
}

// CloseNow closes without a scheduling point (scheduler context).
func (l *Listener) CloseNow() error {
	if l.closed {
		return ErrClosed
	}
	l.closed = true
	if l.net.Listeners[l.addr] == l {
		delete(l.net.Listeners, l.addr)
	}
	for _, c := range l.queue {
		c.reset()
	}
	l.queue = nil
	l.q.Wake()
	return nil
}

func (l *Listener) Addr() net.Addr { return Addr(l.addr) }

// ---- connection ----------------------------------------------------------------

// Conn is one endpoint of a simulated connection.
type Conn struct {
	ID     int
	net    *Network
	NC     *rt.NodeCtx // owner
	Peer   *Conn
	Dialer bool
	Addr_  string // address dialled

	rbuf       []byte
	eof        bool // FIN delivered
	closed     bool // closed by owner
	broken     bool // reset
	rq, wq     rt.WaitQ
	rdl, wdl   int64 // global deadlines, 0 = none
	rdlEv      *rt.Event
	wdlEv      *rt.Event
	out        []chunk // in flight to Peer
	outBytes   int
	outEv      *rt.Event
	outStalled bool
	lastReady  int64
	BlackHole  bool // bytes written are silently discarded (fault)

	// tap
	Sent, Rcvd uint64
	Head       []byte // first bytes written by this endpoint
	User       interface{}
}

func (c *Conn) SimOrder() uint64 { return uint64(c.ID) }

func (n *Network) newConn(nc *rt.NodeCtx) *Conn {
	c := &Conn{ID: n.nextID, net: n, NC: nc}
	n.nextID++
	n.Conns = append(n.Conns, c)
	return c
}

// Dial is the dial function handed to nodes. nc is the dialling node.
func (n *Network) Dial(nc *rt.NodeCtx, addr string, timeout time.Duration) (net.Conn, error) {
	rt.Point(rt.KNet << 24)
	s := n.S
	n.Stats.Dials++
	var l *Listener
	if n.Route != nil {
		l = n.Route(nc, addr)
	} else {
		l = n.Listeners[addr]
	}
	from := nodeID(nc)
	if nc != nil && nc.Dead {
		return nil, ErrRefused
	}
	if l == nil || l.closed {
		// refused after one network delay
		n.Stats.DialRefused++
		simtime.Sleep(time.Duration(n.latency(from, from)))
		return nil, ErrRefused
	}
	to := nodeID(l.NC)
	if !n.linkUp(from, to) || !n.linkUp(to, from) {
		n.Stats.DialTimeout++
		if timeout < 0 {
			// net.DialTimeout with an expired budget fails at once
			return nil, timeoutErr{"dial"}
		}
		if timeout == 0 {
			timeout = 30 * time.Second // no timeout given: the OS gives up eventually
		}
		simtime.Sleep(timeout)
		return nil, timeoutErr{"dial"}
	}
	lat := n.latency(from, to) + n.latency(to, from)
	if timeout > 0 && time.Duration(lat) > timeout {
		n.Stats.DialTimeout++
		simtime.Sleep(timeout)
		return nil, timeoutErr{"dial"}
	}
	simtime.Sleep(time.Duration(lat))
	if l.closed {
		n.Stats.DialRefused++
		return nil, ErrRefused
	}
	if nc != nil && nc.Dead {
		return nil, ErrRefused
	}
	cl, sv := n.newConn(nc), n.newConn(l.NC)
	cl.Peer, sv.Peer = sv, cl
	cl.Dialer = true
	cl.Addr_, sv.Addr_ = addr, addr
	cl.lastReady, sv.lastReady = s.Now, s.Now
	l.queue = append(l.queue, sv)
	l.q.Wake()
	return cl, nil
}

func (c *Conn) globalDeadline(t time.Time) int64 {
	if t.IsZero() {
		return 0
	}
	local := simtime.ToLocal(t)
	s := c.net.S
	// convert the distance from the caller's local now into global time
	var nc *rt.NodeCtx
	if g := s.Cur(); g != nil {
		nc = g.NC
	}
	d := local - simtime.LocalNanos(nc, s.Now)
	if d <= 0 {
		return s.Now // already expired (never 0, which means "none")
	}
	return s.Now + simtime.GlobalDur(nc, d)
}

func (c *Conn) SetDeadline(t time.Time) error {
	if err := c.SetReadDeadline(t); err != nil {
		return err
	}
	return c.SetWriteDeadline(t)
}

func (c *Conn) SetReadDeadline(t time.Time) error {
	if c.closed {
		return ErrClosed
	}
	c.rdl = c.globalDeadline(t)
	if c.rdl == 0 && !t.IsZero() {
		c.rdl = 1
	}
	if c.rdlEv != nil {
		c.rdlEv.Cancel()
		c.rdlEv = nil
	}
	if c.rdl > 0 {
		c.rdlEv = c.net.S.At(c.rdl, "rdeadline", func() { c.rq.Wake() })
	}
	c.rq.Wake()
	return nil
}

func (c *Conn) SetWriteDeadline(t time.Time) error {
	if c.closed {
		return ErrClosed
	}
	c.wdl = c.globalDeadline(t)
	if c.wdl == 0 && !t.IsZero() {
		c.wdl = 1
	}
	if c.wdlEv != nil {
		c.wdlEv.Cancel()
		c.wdlEv = nil
	}
	if c.wdl > 0 {
		c.wdlEv = c.net.S.At(c.wdl, "wdeadline", func() { c.wq.Wake() })
	}
	c.wq.Wake()
	return nil
}

func (c *Conn) LocalAddr() net.Addr  { return Addr(fmt.Sprintf("conn%d", c.ID)) }
func (c *Conn) RemoteAddr() net.Addr { return Addr(c.Addr_) }

func (c *Conn) Read(b []byte) (int, error) {
	rt.Point(rt.KNet << 24)
	s := c.net.S
	for {
		if c.closed {
			return 0, ErrClosed
		}
		if len(c.rbuf) > 0 {
			n := copy(b, c.rbuf)
			c.rbuf = c.rbuf[n:]
			c.Rcvd += uint64(n)
			if c.Peer != nil {
				c.Peer.wq.Wake() // window opened
			}
			return n, nil
		}
		if c.broken {
			return 0, ErrReset
		}
		if c.eof {
			return 0, io.EOF
		}
		if c.rdl > 0 && s.Now >= c.rdl {
			c.net.Stats.ReadTimeouts++
			return 0, timeoutErr{"read"}
		}
		if len(b) == 0 {
			return 0, nil
		}
		c.rq.Wait(rt.KNet << 24)
	}
}

func (c *Conn) Write(b []byte) (int, error) {
	rt.Point(rt.KNet << 24)
	s := c.net.S
	written := 0
	for len(b) > 0 {
		if c.closed {
			return written, ErrClosed
		}
		if c.broken {
			return written, ErrReset
		}
		if c.wdl > 0 && s.Now >= c.wdl {
			c.net.Stats.WriteTimeouts++
			return written, timeoutErr{"write"}
		}
		room := c.net.MaxBuf - c.outBytes
		if c.Peer != nil {
			room -= len(c.Peer.rbuf)
		}
		if room <= 0 {
			c.wq.Wait(rt.KNet << 24)
			continue
		}
		n := len(b)
		if n > room {
			n = room
		}
		c.enqueue(b[:n])
		written += n
		b = b[n:]
	}
	return written, nil
}

func (c *Conn) enqueue(b []byte) {
	n := c.net
	if len(c.Head) < 96 {
		k := 96 - len(c.Head)
		if k > len(b) {
			k = len(b)
		}
		c.Head = append(c.Head, b[:k]...)
	}
	c.Sent += uint64(len(b))
	n.Stats.BytesSent += uint64(len(b))
	if c.BlackHole {
		return
	}
	from, to := nodeID(c.NC), nodeID(c.Peer.NC)
	for len(b) > 0 {
		k := len(b)
		if n.Chunk != nil {
			k = n.Chunk(len(b))
			if k < 1 {
				k = 1
			}
			if k > len(b) {
				k = len(b)
			}
		}
		data := make([]byte, k)
		copy(data, b[:k])
		b = b[k:]
		at := n.S.Now + n.latency(from, to)
		if at < c.lastReady {
			at = c.lastReady
		}
		c.lastReady = at
		c.out = append(c.out, chunk{data: data, readyAt: at})
		c.outBytes += k
		n.Stats.Chunks++
	}
	c.armOut()
}

func (c *Conn) armOut() {
	if c.outEv != nil || len(c.out) == 0 || c.outStalled {
		return
	}
	c.outEv = c.net.S.At(c.out[0].readyAt, "deliver", c.deliver)
}

func (c *Conn) deliver() {
	c.outEv = nil
	if len(c.out) == 0 {
		return
	}
	p := c.Peer
	if !c.net.linkUp(nodeID(c.NC), nodeID(p.NC)) {
		c.outStalled = true
		c.net.Stats.Held++
		return
	}
	ch := c.out[0]
	c.out[0] = chunk{}
	c.out = c.out[1:]
	c.outBytes -= len(ch.data)
	if !p.broken && !p.closed {
		if ch.fin {
			p.eof = true
		} else {
			p.rbuf = append(p.rbuf, ch.data...)
		}
		p.rq.Wake()
	}
	c.wq.Wake()
	c.armOut()
}

// Kick re-arms deliveries that were held by a partition. Call after any
// change of the link matrix.
func (n *Network) Kick() {
	for _, c := range n.Conns {
		if c.outStalled {
			c.outStalled = false
			if len(c.out) > 0 && c.out[0].readyAt < n.S.Now {
				c.out[0].readyAt = n.S.Now
			}
			c.armOut()
		}
	}
}

func (c *Conn) Close() error {
	rt.Point(rt.KNet << 24)
	return c.CloseNow()
}

// CloseNow is Close without a scheduling point.
func (c *Conn) CloseNow() error {
	if c.closed {
		return ErrClosed
	}
	c.closed = true
	if c.net.OnClose != nil {
		c.net.OnClose(c)
	}
	c.rbuf = nil
	if c.rdlEv != nil {
		c.rdlEv.Cancel()
	}
	if c.wdlEv != nil {
		c.wdlEv.Cancel()
	}
	c.rq.Wake()
	c.wq.Wake()
	if !c.broken && c.Peer != nil && !c.BlackHole {
		at := c.net.S.Now + c.net.latency(nodeID(c.NC), nodeID(c.Peer.NC))
		if at < c.lastReady {
			at = c.lastReady
		}
		c.lastReady = at
		c.out = append(c.out, chunk{fin: true, readyAt: at})
		c.net.Stats.Fins++
		c.armOut()
	}
	return nil
}

func (c *Conn) reset() {
	if c.broken {
		return
	}
	c.broken = true
	if c.net.OnClose != nil {
		c.net.OnClose(c)
	}
	c.out = nil
	c.outBytes = 0
	if c.outEv != nil {
		c.outEv.Cancel()
		c.outEv = nil
	}
	c.rq.Wake()
	c.wq.Wake()
}

// Reset breaks both ends at once (RST seen by both).
func (c *Conn) Reset() {
	c.net.Stats.Resets++
	c.reset()
	if c.Peer != nil {
		c.Peer.reset()
	}
}

// ResetLocal breaks only this endpoint; the peer learns nothing (its reads
// block until a deadline): the half-open connection of a vanished host.
func (c *Conn) ResetLocal() {
	c.net.Stats.Resets++
	c.reset()
}

func (c *Conn) Closed() bool  { return c.closed }
func (c *Conn) Broken() bool  { return c.broken }
func (c *Conn) Pending() int  { return c.outBytes }
func (c *Conn) Buffered() int { return len(c.rbuf) }

// CrashNode fails every endpoint owned by nc. If notify, peers see a reset
// (process died, kernel closed the sockets); otherwise they see silence.
func (n *Network) CrashNode(nc *rt.NodeCtx, notify bool) {
	for _, c := range n.Conns {
		if c.NC == nc && !c.broken {
			if notify && c.Peer != nil {
				c.Peer.reset()
			}
			c.reset()
		}
	}
	// the dead process accepts nothing any more; its own Accept keeps blocking
	// until its shutdown path closes the listener
	for addr, l := range n.Listeners {
		if l.NC == nc {
			delete(n.Listeners, addr)
			for _, c := range l.queue {
				c.reset()
				if c.Peer != nil && notify {
					c.Peer.reset()
				}
			}
			l.queue = nil
		}
	}
}
