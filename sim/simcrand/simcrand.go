// Package simcrand stands in for crypto/rand in instrumented code: under
// simulation its bytes come from the choice tape.
package simcrand

import (
	crand "crypto/rand"
	"io"
	"math/big"

	"verif.local/sim/rt"
)

type reader struct{}

func (reader) Read(p []byte) (int, error) {
	if rt.PassThrough {
		return crand.Read(p)
	}
	// one tape cell seeds a small generator: consumers here only seed math/rand
	x := uint64(rt.Choose(rt.StMisc, 1<<30)) + 0x9e3779b97f4a7c15
	for i := range p {
		x ^= x >> 12
		x ^= x << 25
		x ^= x >> 27
		p[i] = byte((x * 2685821657736338717) >> 32)
	}
	return len(p), nil
}

var Reader io.Reader = reader{}

func Int(r io.Reader, max *big.Int) (*big.Int, error) {
	if rt.PassThrough {
		return crand.Int(r, max)
	}
	// uniform enough for seeding; deterministic
	b := make([]byte, 8)
	_, _ = r.Read(b)
	var v uint64
	for _, c := range b {
		v = v<<8 | uint64(c)
	}
	n := new(big.Int).SetUint64(v >> 1)
	return n.Mod(n, max), nil
}

func Read(b []byte) (int, error) { return Reader.Read(b) }
