// Package simunix stands in for golang.org/x/sys/unix in instrumented code
// (only the mmap family is used). Mappings are real shared mappings of real
// files. Munmap revokes access (PROT_NONE) instead of unmapping, so a later
// read through a stale slice becomes a recoverable fault in the goroutine that
// does it instead of killing the worker; the real unmap happens at end of run.
package simunix

import (
	"golang.org/x/sys/unix"

	"verif.local/sim/rt"
)

const (
	PROT_READ  = unix.PROT_READ
	PROT_WRITE = unix.PROT_WRITE
	PROT_NONE  = unix.PROT_NONE
	MAP_SHARED = unix.MAP_SHARED
	MS_SYNC    = unix.MS_SYNC
)

// Hook mirrors simos.Hook for msync/mmap/munmap (op, "" path).
var Hook func(op string, b []byte) error

// After is called after a successful mmap ("mmap", fd in n), msync or munmap.
var After func(op string, b []byte, fd int)

var deferred [][]byte

// RealUnmap is raised by an oracle while it works on a private directory image.
var RealUnmap bool

// Mapped counts live mappings (for leak probes).
var Mapped int

func Mmap(fd int, offset int64, length int, prot int, flags int) ([]byte, error) {
	if rt.PassThrough {
		return unix.Mmap(fd, offset, length, prot, flags)
	}
	rt.Point(rt.KIO << 24)
	if Hook != nil {
		if err := Hook("mmap", nil); err != nil {
			return nil, err
		}
	}
	b, err := unix.Mmap(fd, offset, length, prot, flags)
	if err == nil {
		Mapped++
		if After != nil {
			After("mmap", b, fd)
		}
	}
	return b, err
}

func Msync(b []byte, flags int) error {
	if rt.PassThrough {
		return unix.Msync(b, flags)
	}
	rt.Point(rt.KIO << 24)
	if Hook != nil {
		if err := Hook("msync", b); err != nil {
			return err
		}
	}
	err := unix.Msync(b, flags)
	if err == nil && After != nil {
		After("msync", b, -1)
	}
	return err
}

func Munmap(b []byte) error {
	if rt.PassThrough {
		return unix.Munmap(b)
	}
	rt.Point(rt.KIO << 24)
	if Hook != nil {
		if err := Hook("munmap", b); err != nil {
			return err
		}
	}
	if len(b) == 0 {
		return unix.EINVAL
	}
	if rt.S.Cur() == nil || RealUnmap {
		// scheduler context (an oracle re-opening a directory image): nobody else can hold
		// this mapping, release it for real
		Mapped--
		if After != nil {
			After("munmap", b, -1)
		}
		return unix.Munmap(b)
	}
	if err := unix.Mprotect(b, unix.PROT_NONE); err != nil {
		return err
	}
	Mapped--
	deferred = append(deferred, b)
	if After != nil {
		After("munmap", b, -1)
	}
	return nil
}

// ReleaseAll really unmaps everything whose unmapping was deferred.
func ReleaseAll() {
	for _, b := range deferred {
		_ = unix.Munmap(b)
	}
	deferred = nil
}
