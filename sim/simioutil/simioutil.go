// Package simioutil stands in for io/ioutil in instrumented code.
package simioutil

import (
	"fmt"
	"io"
	"io/ioutil"
	"os"
	"path/filepath"
	"strings"

	"verif.local/sim/rt"
	"verif.local/sim/simos"
)

var Discard io.Writer = ioutil.Discard

var tempSeq int

// ResetTemp restarts the deterministic temp-name counter (per run).
func ResetTemp() { tempSeq = 0 }

func TempFile(dir, pattern string) (*simos.File, error) {
	if rt.PassThrough {
		f, err := ioutil.TempFile(dir, pattern)
		if err != nil {
			return nil, err
		}
		return simos.NewFileFrom(f), nil
	}
	if dir == "" {
		dir = os.TempDir()
	}
	prefix, suffix := pattern, ""
	if i := strings.LastIndex(pattern, "*"); i >= 0 {
		prefix, suffix = pattern[:i], pattern[i+1:]
	}
	for {
		tempSeq++
		name := filepath.Join(dir, fmt.Sprintf("%s%06d%s", prefix, tempSeq, suffix))
		f, err := simos.OpenFile(name, os.O_RDWR|os.O_CREATE|os.O_EXCL, 0600)
		if os.IsExist(err) {
			continue
		}
		return f, err
	}
}

func ReadAll(r io.Reader) ([]byte, error) { return ioutil.ReadAll(r) }
