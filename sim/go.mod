module verif.local/sim

go 1.20

require golang.org/x/sys v0.0.0-20191010194322-b09406accb47
