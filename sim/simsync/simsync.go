// Package simsync stands in for package sync in instrumented code. Locks are
// try-lock + wait on a simulator queue, so a waiter is always visible to the
// scheduler. The embedded real primitives are never contended; they exist so
// that the race detector sees the same happens-before edges as with package sync.
package simsync

import (
	"sync"

	"verif.local/sim/rt"
)

type Locker = sync.Locker

type Mutex struct {
	real   sync.Mutex
	locked bool
	q      rt.WaitQ
}

func (m *Mutex) Lock() {
	if rt.PassThrough {
		m.real.Lock()
		return
	}
	rt.Point(rt.KLock << 24)
	for m.locked {
		m.q.Wait(rt.KLock << 24)
	}
	m.locked = true
	m.real.Lock()
}

func (m *Mutex) Unlock() {
	if rt.PassThrough {
		m.real.Unlock()
		return
	}
	if !m.locked {
		panic("sync: unlock of unlocked mutex")
	}
	m.real.Unlock()
	m.locked = false
	m.q.Wake()
}

type RWMutex struct {
	real    sync.RWMutex
	writer  bool
	readers int
	q       rt.WaitQ
}

func (m *RWMutex) Lock() {
	if rt.PassThrough {
		m.real.Lock()
		return
	}
	rt.Point(rt.KLock << 24)
	for m.writer || m.readers > 0 {
		m.q.Wait(rt.KLock << 24)
	}
	m.writer = true
	m.real.Lock()
}

func (m *RWMutex) Unlock() {
	if rt.PassThrough {
		m.real.Unlock()
		return
	}
	if !m.writer {
		panic("sync: Unlock of unlocked RWMutex")
	}
	m.real.Unlock()
	m.writer = false
	m.q.Wake()
}

func (m *RWMutex) RLock() {
	if rt.PassThrough {
		m.real.RLock()
		return
	}
	rt.Point(rt.KLock << 24)
	for m.writer {
		m.q.Wait(rt.KLock << 24)
	}
	m.readers++
	m.real.RLock()
}

func (m *RWMutex) RUnlock() {
	if rt.PassThrough {
		m.real.RUnlock()
		return
	}
	if m.readers <= 0 {
		panic("sync: RUnlock of unlocked RWMutex")
	}
	m.real.RUnlock()
	m.readers--
	if m.readers == 0 {
		m.q.Wake()
	}
}

type Once struct {
	real sync.Once
	m    Mutex
	done bool
}

func (o *Once) Do(f func()) {
	if rt.PassThrough {
		o.real.Do(f)
		return
	}
	o.m.Lock()
	defer o.m.Unlock()
	if !o.done {
		defer func() { o.done = true }()
		f()
	}
}

type WaitGroup struct {
	real sync.WaitGroup
	n    int
	q    rt.WaitQ
}

func (wg *WaitGroup) Add(delta int) {
	if rt.PassThrough {
		wg.real.Add(delta)
		return
	}
	wg.n += delta
	if wg.n < 0 {
		panic("sync: negative WaitGroup counter")
	}
	wg.real.Add(delta)
	if wg.n == 0 {
		wg.q.Wake()
	}
}

func (wg *WaitGroup) Done() { wg.Add(-1) }

func (wg *WaitGroup) Wait() {
	if rt.PassThrough {
		wg.real.Wait()
		return
	}
	rt.Point(rt.KLock << 24)
	for wg.n > 0 {
		wg.q.Wait(rt.KLock << 24)
	}
	wg.real.Wait()
}
