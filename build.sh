#!/bin/bash
# builds the instrumented test binaries from /repo's current working tree into $1 (default /verif/build/cur)
set -e
export GOFLAGS=-mod=mod GOPROXY=off GOSUMDB=off GOTOOLCHAIN=local PATH=/opt/veriftools/go1.26.8/bin:$PATH
OUT=${1:-/verif/build/cur}
mkdir -p /verif/build/bin "$OUT"
(cd /verif/tools && go build -o /verif/build/bin/simgen ./simgen)
/verif/build/bin/simgen -out "$OUT"
(cd /repo && go test -c -tags verif -vet=off -overlay "$OUT/overlay.json" -modfile "$OUT/sim.mod" -o "$OUT/raft.test" .)
